//! C07 – static file serving never leaves the configured root.
//!
//! Drives the built `versatiles serve` binary (env `VTH_BIN`) with raw HTTP/1.1 requests whose
//! request targets are sent byte for byte as generated (no client-side normalisation).
//!
//! case line:  `C07 <base> <entries> <sources> <targethex>`   (see lean/VtModel/Path.lean)
//! impl line:  `200 <id>` | `404` | `closed` | `other <status>` | `200 ?`
//!
//! Every file of the fixture holds `ID<n>\n` (compressed when its name ends in `.br`/`.gz`), so a
//! response body identifies the file it came from. Files outside the roots are canaries.
use crate::common::*;
use serde_json::json;
use std::collections::{BTreeMap, BTreeSet};
use std::io::{Read, Write};
use std::net::{SocketAddr, TcpListener, TcpStream};
use std::path::{Path, PathBuf};
use std::process::{Child, Command, Stdio};
use std::time::{Duration, Instant};

const BASE_TOKEN: &str = "/@BASE@";
/// a request is `<target>` or `<target>\u{1}<accept-encoding value>`
const SEP: char = '\u{1}';
/// `<METHOD>\u{2}<request>` for methods other than GET
const MSEP: char = '\u{2}';
fn split_req(req: &str) -> (&str, Option<&str>) {
	match req.split_once(SEP) {
		Some((t, a)) => (t, Some(a)),
		None => (req, None),
	}
}
const ACCEPTS: &[&str] = &["gzip", "br", "gzip, br", "identity", "GZIP", "br;q=0", "brotli", "x-gzip", "*", "gzip;q=0.5, br;q=1.0", "deflate"];
/// the subset sent with *every* fixed / outside-file target (the rest is spread over them)
const ACCEPTS_CORE: usize = 4;

// ---------------------------------------------------------------- fixture

#[derive(Clone, Debug)]
enum Entry {
	Dir(String),
	File(String, u64),
}

#[derive(Clone, Debug)]
enum Backend {
	Folder(String),             // root relative to base
	Tar(Vec<(String, u64)>), // member name, id
}

#[derive(Clone, Debug)]
struct Source {
	prefix: String, // as on the command line, "" = none
	backend: Backend,
}

/// payload classes: id 0 = an empty file, ids 41 / 541 = 2 MiB (larger than any I/O buffer), else a few bytes
fn body_for(name: &str, id: u64) -> Vec<u8> {
	let mut plain = if id == 0 { Vec::new() } else { format!("ID{id}\n").into_bytes() };
	if id == 41 || id == 541 {
		plain.extend(std::iter::repeat(b'#').take(2 << 20));
	}
	if name.ends_with(".gz") {
		let mut e = flate2::write::GzEncoder::new(Vec::new(), flate2::Compression::default());
		e.write_all(&plain).unwrap();
		e.finish().unwrap()
	} else if name.ends_with(".br") {
		let mut out = Vec::new();
		{
			let mut w = brotli::CompressorWriter::new(&mut out, 4096, 5, 20);
			w.write_all(&plain).unwrap();
		}
		out
	} else {
		plain
	}
}

fn parse_id(body: &[u8]) -> Option<u64> {
	let try_plain = |b: &[u8]| -> Option<u64> {
		if b.is_empty() {
			return Some(0);
		}
		let nl = b.iter().position(|c| *c == b'\n')?;
		if !b[nl + 1..].iter().all(|c| *c == b'#') {
			return None;
		}
		let s = std::str::from_utf8(&b[..nl]).ok()?;
		s.strip_prefix("ID")?.parse().ok()
	};
	if let Some(v) = try_plain(body) {
		return Some(v);
	}
	let mut d = Vec::new();
	if flate2::read::GzDecoder::new(body).read_to_end(&mut d).is_ok() {
		if let Some(v) = try_plain(&d) {
			return Some(v);
		}
	}
	let mut d = Vec::new();
	if brotli::Decompressor::new(body, 4096).read_to_end(&mut d).is_ok() {
		if let Some(v) = try_plain(&d) {
			return Some(v);
		}
	}
	None
}

/// minimal ustar writer (regular files only); names up to 100 bytes, stored verbatim
fn write_tar(path: &Path, members: &[(String, u64)]) {
	let mut out: Vec<u8> = Vec::new();
	for (name, id) in members {
		let data = body_for(name, *id);
		let mut h = [0u8; 512];
		let nb = name.as_bytes();
		assert!(nb.len() <= 100);
		h[..nb.len()].copy_from_slice(nb);
		h[100..108].copy_from_slice(b"0000644\0");
		h[108..116].copy_from_slice(b"0000000\0");
		h[116..124].copy_from_slice(b"0000000\0");
		h[124..136].copy_from_slice(format!("{:011o}\0", data.len()).as_bytes());
		h[136..148].copy_from_slice(b"00000000000\0");
		h[148..156].copy_from_slice(b"        ");
		h[156] = b'0';
		h[257..263].copy_from_slice(b"ustar\0");
		h[263..265].copy_from_slice(b"00");
		let sum: u32 = h.iter().map(|b| *b as u32).sum();
		h[148..156].copy_from_slice(format!("{:06o}\0 ", sum).as_bytes());
		out.extend_from_slice(&h);
		out.extend_from_slice(&data);
		out.extend(std::iter::repeat(0u8).take((512 - data.len() % 512) % 512));
	}
	// entries that are not regular files (directory, symlink, hard link, fifo): must never be served
	for (name, typ, link) in [("sub/", b'5', ""), ("evil", b'2', "/etc/passwd"), ("evil2", b'2', "../secret.txt"), ("hard", b'1', "a.txt"), ("fifo", b'6', "")] {
		let mut h = [0u8; 512];
		h[..name.len()].copy_from_slice(name.as_bytes());
		h[100..108].copy_from_slice(b"0000644\0");
		h[108..116].copy_from_slice(b"0000000\0");
		h[116..124].copy_from_slice(b"0000000\0");
		h[124..136].copy_from_slice(b"00000000000\0");
		h[136..148].copy_from_slice(b"00000000000\0");
		h[148..156].copy_from_slice(b"        ");
		h[156] = typ;
		h[157..157 + link.len()].copy_from_slice(link.as_bytes());
		h[257..263].copy_from_slice(b"ustar\0");
		h[263..265].copy_from_slice(b"00");
		let sum: u32 = h.iter().map(|b| *b as u32).sum();
		h[148..156].copy_from_slice(format!("{:06o}\0 ", sum).as_bytes());
		out.extend_from_slice(&h);
	}
	out.extend(std::iter::repeat(0u8).take(1024));
	std::fs::write(path, out).unwrap();
}

fn default_entries() -> Vec<Entry> {
	use Entry::*;
	let d = |s: &str| Dir(s.to_string());
	let f = |s: &str, i: u64| File(s.to_string(), i);
	vec![
		d("root"), f("root/index.html", 1), f("root/a.txt", 2), f("root/a.txt.br", 3), f("root/b.txt.gz", 4),
		f("root/c.txt.br", 5), f("root/c.txt.gz", 6),
		d("root/sub"), f("root/sub/index.html", 7), f("root/sub/x.txt", 8),
		d("root/sub/deep"), f("root/sub/deep/y.txt", 9),
		d("root/nodex"), f("root/nodex/n.txt", 10),
		d("root/brdir"), f("root/brdir/index.html.br", 11),
		d("root/weird"), d("root/weird/index.html"),
		d("root/%2e%2e"), f("root/%2e%2e/p.txt", 12), f("root/..%2fsecret.txt", 13), f("root/.hidden", 14),
		f("root/secret.txt", 15), d("root/sib"), f("root/sib/c.txt", 16),
		d("root/root"), f("root/root/a.txt", 17), f("root/...", 18), f("root/..a", 19),
		d("root/assets"), f("root/assets/q.txt", 20), f("root/..\\x.txt", 21),
		f("root/empty.bin", 0), f("root/big.bin", 41), f("root/a.txt.", 22), f("root/a.txt%20", 23), f("root/%5c", 24), f("root/%252e%252e", 25),
		// canaries: everything below is outside `root`
		f("secret.txt", 1000), d("sib"), f("sib/c.txt", 1001), f("sib/index.html", 1002), f("index.html", 1003),
		f("a.txt", 1004), d("rootx"), f("rootx/a.txt", 1005), f("root.br", 1006), f("root.gz", 1007),
		// siblings whose *path string* has the root's path as a textual prefix
		f("rootx/index.html", 1008), f("rootx/only.txt.br", 1009), f("rootx/gz.txt.gz", 1010),
		d("root-private"), f("root-private/secret.txt", 1011), f("root-private/index.html", 1012), f("root.bak", 1013),
		d("root.d"), f("root.d/index.html.br", 1014), d("root2x"), f("root2x/a.txt", 1015),
		// roots without index.html / with only a precompressed index, one level deeper (`site/…`), and outside
		// siblings whose names are DERIVED from the root's (and its parent's) name
		d("site"), d("site/noidx"), f("site/noidx/a.txt", 60), d("site/noidx/sub"), f("site/noidx/sub/x.txt", 61), f("site/noidx/sub.html", 62),
		d("site/noidx/deep"), d("site/noidx/deep/er"), f("site/noidx/deep/er.html", 63), f("site/noidx/deep.html", 64), f("site/noidx/deep/er/y.txt", 68),
		f("site/noidx.html", 1040), f("site/noidx.htm", 1041), f("site/noidx.br", 1042), f("site/noidx.gz", 1043), f("site/noidx.html.br", 1044),
		f("site/noidx.html.gz", 1045), f("site/noidx.tar", 1046), f("site/noidx~", 1047), d("site/noidx.bak"), f("site/noidx.bak/index.html", 1048),
		f("site.html", 1049), f("site.br", 1050), f("site/index.html", 1051), f("site/index.html.html", 1061), f("site/.html", 1062),
		d("site/bridx"), f("site/bridx/index.html.br", 65), f("site/bridx/a.txt", 66), f("site/bridx.html", 1052), f("site/bridx.html.br", 1063),
		d("site/gzidx"), f("site/gzidx/index.html.gz", 67), f("site/gzidx.html", 1053), f("site/gzidx.gz", 1064),
		f("root.html", 1054), f("root.htm", 1055), f("root.html.br", 1056), f("root.html.gz", 1057), f("root.tar", 1058), f("root~", 1059),
		d("root.old"), f("root.old/index.html", 1060), f("root/nodex.html", 26), f("root/sub.html", 27),
		// precompressed-only files next to / above the web root (no plain sibling)
		f("backup.tar.gz", 1020), f("sib/only.js.br", 1021), f("secret2.txt.gz", 1022), f("sib/page.html.br", 1023), f("sib/page.html.gz", 1024),
		d("root2"), f("root2/index.html", 30), f("root2/a.txt", 31), f("root2/r2.txt", 32),
	]
}

fn default_members() -> Vec<(String, u64)> {
	[
		("index.html", 500), ("a.txt", 501), ("sub/index.html", 502), ("sub/x.txt.gz", 503), ("./dot/y.txt", 504),
		("b.txt.br", 505), (".hid/z.txt", 506), ("c.txt.gz", 507), ("c.txt.br", 508), ("c.txt", 509),
		("secret.txt", 510), ("nest/deep/index.html.br", 511), ("../up.txt", 512), ("d/../e.txt", 513),
		("sub//dbl.txt", 514), ("%2e%2e/enc.txt", 515), ("a.txt", 516), ("big.bin", 541), ("empty.bin", 0),
	]
	.iter()
	.map(|(n, i)| (n.to_string(), *i))
	.collect()
}

fn show_entries(es: &[Entry]) -> String {
	if es.is_empty() {
		return "-".into();
	}
	es.iter()
		.map(|e| match e {
			Entry::Dir(p) => format!("d:{p}"),
			Entry::File(p, i) => format!("f:{p}:{i}"),
		})
		.collect::<Vec<_>>()
		.join(";")
}
fn parse_entries(s: &str) -> Vec<Entry> {
	if s == "-" {
		return vec![];
	}
	s.split(';')
		.map(|e| {
			let p: Vec<&str> = e.split(':').collect();
			match p[0] {
				"d" => Entry::Dir(p[1].to_string()),
				_ => Entry::File(p[1].to_string(), p[2].parse().unwrap()),
			}
		})
		.collect()
}
fn show_sources(ss: &[Source]) -> String {
	ss.iter()
		.map(|s| {
			let p = if s.prefix.is_empty() { "-" } else { &s.prefix };
			match &s.backend {
				Backend::Folder(r) => format!("F:{p}:{r}"),
				Backend::Tar(ms) => format!(
					"T:{p}:{}",
					if ms.is_empty() { "-".to_string() } else { ms.iter().map(|(n, i)| format!("{n}={i}")).collect::<Vec<_>>().join(",") }
				),
			}
		})
		.collect::<Vec<_>>()
		.join(";")
}
fn parse_sources(s: &str) -> Vec<Source> {
	s.split(';')
		.map(|x| {
			let p: Vec<&str> = x.split(':').collect();
			let prefix = if p[1] == "-" { String::new() } else { p[1].to_string() };
			match p[0] {
				"F" => Source { prefix, backend: Backend::Folder(p[2].to_string()) },
				_ => Source {
					prefix,
					backend: Backend::Tar(if p[2] == "-" {
						vec![]
					} else {
						p[2].split(',').map(|m| { let (n, i) = m.rsplit_once('=').unwrap(); (n.to_string(), i.parse().unwrap()) }).collect()
					}),
				},
			}
		})
		.collect()
}

fn build_fixture(base: &Path, entries: &[Entry]) {
	let _ = std::fs::remove_dir_all(base);
	std::fs::create_dir_all(base).unwrap();
	for e in entries {
		match e {
			Entry::Dir(p) => std::fs::create_dir_all(base.join(p)).unwrap(),
			Entry::File(p, id) => {
				let fp = base.join(p);
				std::fs::create_dir_all(fp.parent().unwrap()).unwrap();
				std::fs::write(&fp, body_for(p, *id)).unwrap();
			}
		}
	}
	// tile source required by `versatiles serve`: a directory container with one tile
	std::fs::create_dir_all(base.join("zztiles/0/0")).unwrap();
	std::fs::write(base.join("zztiles/0/0/0.png"), b"\x89PNG\r\n\x1a\n").unwrap();
}

// ---------------------------------------------------------------- server

struct Server {
	child: Child,
	addr: SocketAddr,
}
impl Drop for Server {
	fn drop(&mut self) {
		let _ = self.child.kill();
		let _ = self.child.wait();
	}
}

fn start_server(base: &Path, sources: &[Source], idx: usize, flags: &[String]) -> Server {
	let bin = std::env::var("VTH_BIN").expect("VTH_BIN not set (path of the built versatiles binary)");
	for attempt in 0..5 {
		let port = {
			let l = TcpListener::bind("127.0.0.1:0").unwrap();
			l.local_addr().unwrap().port()
		};
		let mut cmd = Command::new(&bin);
		// launch variants (pseudo flags): `@cwd=<dir relative to base>` = working directory of the server,
		// `@spell=<text>` = how the FIRST folder source is spelled on the command line (".", "./root/", absolute, "../x")
		let cwd_rel = flags.iter().find_map(|f| f.strip_prefix("@cwd=")).unwrap_or("");
		let spell = flags.iter().find_map(|f| f.strip_prefix("@spell="));
		let plain_launch = cwd_rel.is_empty();
		cmd.current_dir(base.join(cwd_rel)).arg("serve").arg("-i").arg("127.0.0.1").arg("-p").arg(port.to_string());
		let mut first_folder = true;
		for (k, s) in sources.iter().enumerate() {
			let file = match &s.backend {
				Backend::Folder(r) => {
					let f = if first_folder && spell.is_some() {
						spell.unwrap().replace(BASE_TOKEN, &base.display().to_string())
					} else if plain_launch {
						r.clone()
					} else {
						base.join(r).display().to_string()
					};
					first_folder = false;
					f
				}
				Backend::Tar(ms) => {
					// `TarFile::from` unwraps .gz / .br name suffixes down to .tar: vary the wrapping by configuration
					let ext = ["tar", "tar.gz", "tar.br", "tar.br.gz"][idx % 4];
					let name = format!("arch{idx}_{k}.{ext}");
					let plain = base.join(format!("arch{idx}_{k}.plain"));
					write_tar(&plain, ms);
					let mut data = std::fs::read(&plain).unwrap();
					let _ = std::fs::remove_file(&plain);
					for step in ext.split('.').skip(1) {
						data = match step {
							"gz" => { let mut e = flate2::write::GzEncoder::new(Vec::new(), flate2::Compression::fast()); e.write_all(&data).unwrap(); e.finish().unwrap() }
							_ => { let mut o = Vec::new(); { let mut w = brotli::CompressorWriter::new(&mut o, 4096, 1, 20); w.write_all(&data).unwrap(); } o }
						};
					}
					std::fs::write(base.join(&name), data).unwrap();
					if plain_launch { name } else { base.join(&name).display().to_string() }
				}
			};
			cmd.arg("-s").arg(if s.prefix.is_empty() { file } else { format!("[{}]{}", s.prefix, file) });
		}
		cmd.args(flags.iter().filter(|f| !f.starts_with('@')));
		cmd.arg(base.join("zztiles")).env("RUST_BACKTRACE", "0").stdin(Stdio::null()).stdout(Stdio::null()).stderr(Stdio::null());
		let mut child = cmd.spawn().expect("cannot start the versatiles binary");
		let addr: SocketAddr = format!("127.0.0.1:{port}").parse().unwrap();
		let t0 = Instant::now();
		let mut up = false;
		while t0.elapsed() < Duration::from_secs(20) {
			if let Ok(Some(_)) = child.try_wait() {
				break; // exited (port taken, …) → retry with another port
			}
			if let Some((200, b)) = request(addr, "/status").map(|r| (r.0, r.1)) {
				if b == b"ready!" {
					up = true;
					break;
				}
			}
			std::thread::sleep(Duration::from_millis(20));
		}
		if up {
			return Server { child, addr };
		}
		let _ = child.kill();
		let _ = child.wait();
		eprintln!("C07: server did not come up (attempt {attempt}), retrying");
	}
	eprintln!("C07: infrastructure error: cannot start the server");
	std::process::exit(3);
}

/// Keep-alive HTTP/1.1 client over a plain `TcpStream`; request targets are written verbatim.
struct Client {
	addr: SocketAddr,
	conn: Option<std::io::BufReader<TcpStream>>,
}
impl Client {
	fn new(addr: SocketAddr) -> Self {
		Client { addr, conn: None }
	}
	fn connect(&mut self) -> bool {
		for _ in 0..100 {
			match TcpStream::connect_timeout(&self.addr, Duration::from_secs(5)) {
				Ok(c) => {
					c.set_read_timeout(Some(Duration::from_secs(20))).ok();
					c.set_nodelay(true).ok();
					self.conn = Some(std::io::BufReader::new(c));
					return true;
				}
				// connect failures are infrastructure (backlog, server not yet up): retry
				Err(_) => std::thread::sleep(Duration::from_millis(10)),
			}
		}
		false
	}
	/// one exchange on the current connection; `Err(())` = closed before a complete response
	fn exchange(&mut self, req: &str) -> Result<(u16, Vec<u8>), ()> {
		use std::io::BufRead;
		let r = self.conn.as_mut().ok_or(())?;
		let (method, req) = req.split_once(MSEP).unwrap_or(("GET", req));
		let (target, accept) = split_req(req);
		let req = match accept {
			None => format!("{method} {target} HTTP/1.1\r\nHost: localhost\r\n\r\n"),
			Some(a) => format!("{method} {target} HTTP/1.1\r\nHost: localhost\r\nAccept-Encoding: {a}\r\n\r\n"),
		};
		r.get_mut().write_all(req.as_bytes()).map_err(|_| ())?;
		let mut line = String::new();
		if r.read_line(&mut line).map_err(|_| ())? == 0 {
			return Err(());
		}
		let status: u16 = line.split(' ').nth(1).and_then(|x| x.trim().parse().ok()).ok_or(())?;
		let mut len: Option<usize> = None;
		let mut chunked = false;
		let mut close = false;
		let mut cenc = String::new();
		loop {
			line.clear();
			if r.read_line(&mut line).map_err(|_| ())? == 0 {
				return Err(());
			}
			let l = line.trim_end().to_ascii_lowercase();
			if l.is_empty() {
				break;
			}
			if let Some(v) = l.strip_prefix("content-length:") {
				len = v.trim().parse().ok();
			}
			if l.starts_with("transfer-encoding:") && l.contains("chunked") {
				chunked = true;
			}
			if l.starts_with("connection:") && l.contains("close") {
				close = true;
			}
			if let Some(v) = l.strip_prefix("content-encoding:") {
				cenc = v.trim().to_string();
			}
		}
		let mut body = Vec::new();
		if method == "HEAD" {
			// no body follows a HEAD response
		} else if chunked {
			loop {
				line.clear();
				if r.read_line(&mut line).map_err(|_| ())? == 0 {
					return Err(());
				}
				let n = usize::from_str_radix(line.trim(), 16).map_err(|_| ())?;
				let mut buf = vec![0u8; n + 2];
				r.read_exact(&mut buf).map_err(|_| ())?;
				if n == 0 {
					break;
				}
				body.extend_from_slice(&buf[..n]);
			}
		} else if let Some(n) = len {
			body = vec![0u8; n];
			r.read_exact(&mut body).map_err(|_| ())?;
		} else {
			r.read_to_end(&mut body).map_err(|_| ())?;
			close = true;
		}
		if close {
			self.conn = None;
		}
		// undo the transfer coding chosen by the server (`Content-Encoding`), so that the body is the served file
		if cenc == "gzip" {
			let mut d = Vec::new();
			if flate2::read::GzDecoder::new(&body[..]).read_to_end(&mut d).is_ok() { body = d; }
		} else if cenc == "br" {
			let mut d = Vec::new();
			if brotli::Decompressor::new(&body[..], 4096).read_to_end(&mut d).is_ok() { body = d; }
		}
		Ok((status, body))
	}
	/// `None` = the server closed the connection without a response (also on a fresh connection)
	fn request(&mut self, target: &str) -> Option<(u16, Vec<u8>)> {
		if self.conn.is_some() {
			if let Ok(r) = self.exchange(target) {
				return Some(r);
			}
			// the reused connection may have been closed earlier: decide on a fresh one
		}
		if !self.connect() {
			// unwinding drops the `Server` guard, which kills the child
			eprintln!("C07: infrastructure error: cannot connect to the server");
			panic!("cannot connect to the server");
		}
		match self.exchange(target) {
			Ok(r) => Some(r),
			Err(()) => {
				self.conn = None;
				None
			}
		}
	}
	fn ask(&mut self, target: &str) -> Resp {
		match self.request(target) {
			None => Resp::Closed,
			Some((200, b)) => Resp::Ok(parse_id(&b)),
			Some((404, _)) => Resp::NotFound,
			Some((s, _)) => Resp::Other(s),
		}
	}
}

fn request(addr: SocketAddr, target: &str) -> Option<(u16, Vec<u8>)> {
	let c = TcpStream::connect_timeout(&addr, Duration::from_millis(500)).ok()?;
	c.set_read_timeout(Some(Duration::from_secs(5))).ok();
	let mut cl = Client { addr, conn: Some(std::io::BufReader::new(c)) };
	cl.exchange(target).ok()
}

#[derive(Clone, Debug, PartialEq)]
enum Resp {
	Ok(Option<u64>),
	NotFound,
	Closed,
	Other(u16),
}
impl Resp {
	fn show(&self) -> String {
		match self {
			Resp::Ok(Some(i)) => format!("200 {i}"),
			Resp::Ok(None) => "200 ?".into(),
			Resp::NotFound => "404".into(),
			Resp::Closed => "closed".into(),
			Resp::Other(s) => format!("other {s}"),
		}
	}
}

fn ask(addr: SocketAddr, target: &str) -> Resp {
	Client::new(addr).ask(target)
}

fn ask_all(addr: SocketAddr, targets: &[String]) -> Vec<Resp> {
	let n = targets.len();
	let mut out = vec![Resp::Closed; n];
	if n == 0 {
		return out;
	}
	let workers = 8.min(n);
	let chunk = (n + workers - 1) / workers;
	std::thread::scope(|s| {
		for (ts, os) in targets.chunks(chunk).zip(out.chunks_mut(chunk)) {
			s.spawn(move || {
				let mut cl = Client::new(addr);
				for (t, o) in ts.iter().zip(os.iter_mut()) {
					*o = cl.ask(t);
				}
			});
		}
	});
	out
}

// ---------------------------------------------------------------- direct oracle

struct World {
	base: PathBuf,
	entries: Vec<Entry>,
	sources: Vec<Source>,
	/// ids that a 200 may carry: files strictly inside a folder root / members of a tar source
	inside: BTreeSet<u64>,
	id_of_path: BTreeMap<PathBuf, u64>,
}

fn make_world(base: &Path, entries: &[Entry], sources: &[Source]) -> World {
	let mut inside = BTreeSet::new();
	let mut id_of_path = BTreeMap::new();
	for e in entries {
		if let Entry::File(p, id) = e {
			id_of_path.insert(base.join(p), *id);
		}
	}
	for s in sources {
		match &s.backend {
			Backend::Folder(r) => {
				let rp = format!("{r}/");
				for e in entries {
					if let Entry::File(p, id) = e {
						if p.starts_with(&rp) {
							inside.insert(*id);
						}
					}
				}
			}
			Backend::Tar(ms) => inside.extend(ms.iter().map(|m| m.1)),
		}
	}
	World { base: base.to_path_buf(), entries: entries.to_vec(), sources: sources.to_vec(), inside, id_of_path }
}

fn uri_path(target: &str) -> &str {
	// absolute-form request target: scheme://authority/path
	let target = match target.strip_prefix("http://").or_else(|| target.strip_prefix("https://")) {
		Some(rest) => rest.find('/').map_or("/", |i| &rest[i..]),
		None => target,
	};
	let end = target.find(|c| c == '?' || c == '#').unwrap_or(target.len());
	&target[..end]
}

fn norm_prefix(p: &str) -> String {
	let mut s = if p.starts_with('/') { p.to_string() } else { format!("/{p}") };
	if !s.ends_with('/') {
		s.push('/');
	}
	s
}

fn features(target: &str) -> (bool, bool, bool, bool) {
	let p = uri_path(target);
	let dotdot = p.split('/').any(|s| s == "..");
	let absolute = p.contains("///") || p.starts_with("//");
	let encoded = p.contains('%') || p.contains('\\');
	let noise = p.split('/').skip(1).any(|s| s == "." || s.is_empty());
	(dotdot, absolute, encoded, noise)
}

/// Verdict of the direct oracle for one exchange: `None` = fine, `Some((kind, message))`.
fn judge(w: &World, target: &str, r: &Resp) -> Option<(&'static str, String)> {
	// (1) a 200 carries the content of a file inside a configured root / archive – never a canary
	if let Resp::Ok(id) = r {
		match id {
			None => return Some(("escape", "200 with a body that is no file of the fixture".into())),
			Some(i) if !w.inside.contains(i) => {
				return Some(("escape", format!("200 with the content of file id {i}, which is outside every configured root")))
			}
			_ => {}
		}
	}
	// (1b) "a path that leaves the root yields 404", for every source kind: a request whose lexically
	// normalised path (after the URL prefix) climbs above the root – more `..` than depth – must not be
	// answered with content; for an archive the same holds for an absolute rest (`//…` after the prefix)
	if matches!(r, Resp::Ok(_)) {
		let path = uri_path(target);
		let path = if path.starts_with('/') { path.to_string() } else { format!("/{path}") };
		let (mut matching, mut escaping) = (0, 0);
		for s in &w.sources {
			if let Some(rem) = path.strip_prefix(&norm_prefix(&s.prefix)) {
				matching += 1;
				let mut depth: i64 = 0;
				let mut esc = false;
				for seg in rem.split('/') {
					match seg {
						"" | "." => {}
						".." => { depth -= 1; if depth < 0 { esc = true; break; } }
						_ => depth += 1,
					}
				}
				if esc || (rem.starts_with("//") && matches!(s.backend, Backend::Tar(_))) {
					escaping += 1;
				}
			}
		}
		if matching > 0 && escaping == matching {
			return Some(("escape-not-404", format!("the request path leaves the root of every source it addresses, but the answer is {}", r.show())));
		}
	}
	// (2)+(3) single folder source: compare with the operating system's own resolution
	if w.sources.len() == 1 {
		if let Backend::Folder(root) = &w.sources[0].backend {
			let root_abs = w.base.join(root);
			let pfx = norm_prefix(&w.sources[0].prefix);
			let path = uri_path(target);
			let path = if path.starts_with('/') { path.to_string() } else { format!("/{path}") };
			if let Some(rem) = path.strip_prefix(&pfx) {
				if rem.starts_with("//") {
					return None; // absolute right operand of the join: only check (1) applies
				}
				let cand = format!("{}/{}", root_abs.display(), rem);
				let inside = |p: &Path| p != root_abs && p.starts_with(&root_abs);
				if let Ok(real) = std::fs::canonicalize(&cand) {
					if !inside(&real) && real != root_abs {
						if matches!(r, Resp::Ok(_)) {
							return Some(("outside-not-404", format!("the OS resolves the request to {real:?} (outside the root) but the answer is {}", r.show())));
						}
					}
				}
				if let Resp::Ok(Some(i)) = r {
					let mut allowed = BTreeSet::new();
					for suf in ["", ".br", ".gz", "/index.html", "/index.html.br", "/index.html.gz"] {
						if let Ok(real) = std::fs::canonicalize(format!("{cand}{suf}")) {
							if inside(&real) && real.is_file() {
								if let Some(id) = w.id_of_path.get(&real) {
									allowed.insert(*id);
								}
							}
						}
					}
					if !allowed.contains(i) {
						return Some(("wrong-file", format!("200 with file id {i}, but the request resolves to file ids {allowed:?}")));
					}
				}
			}
		}
	}
	None
}

// ---------------------------------------------------------------- generation

const SEG_SMALL: &[&str] = &["a.txt", "sub", "..", ".", "", "%2e%2e", "secret.txt", "index.html", "root"];
const SEG_MED: &[&str] = &["a.txt", "sub", "..", ".", "", "%2e%2e", "secret.txt", "index.html", "root", "sib", "c.txt", "..%2f"];
const SEG_ALL: &[&str] = &[
	"a.txt", "b.txt", "c.txt", "sub", "deep", "x.txt", "y.txt", "nodex", "n.txt", "brdir", "weird", "index.html", "secret.txt", "sib", "root",
	"root2", "rootx", "assets", "q.txt", "t", "x", "nope", ".hidden", "...", "..a", "a.txt.br", "b.txt.gz", "index.html.br", "r2.txt",
	"..", ".", "", "..", "..", "%2e%2e", "%2E%2E", "%2e.", ".%2e", "%2f", "..%2f", "..%2fsecret.txt", "%2e%2e%2fsecret.txt", "..\\", "\\..", "..\\x.txt",
	"..;", "..%00", "%c0%ae%c0%ae", "%5c", "%5C..", "..%5c", "%252e%252e", "%25%32%65%25%32%65", "a.txt.", "a.txt%20", "a.txt%00", "..%c0%af", ".%00.", "..%20", "%20..", "a.txt::$DATA", "index.html.", "INDEX.HTML", "A.TXT", "dot", "hid", "nest", "up.txt", "d", "e.txt", "dbl.txt", "enc.txt", "p.txt", "z.txt",
];

fn seg_kind(s: &str) -> &'static str {
	match s {
		".." => "seg_dotdot",
		"." => "seg_dot",
		"" => "seg_empty",
		_ if s.contains('%') => "seg_percent",
		_ if s.contains('\\') => "seg_backslash",
		_ => "seg_name",
	}
}

fn exhaustive(alpha: &[&str], max_depth: usize) -> Vec<Vec<String>> {
	let mut out = vec![];
	for d in 1..=max_depth {
		let total = alpha.len().pow(d as u32);
		for mut idx in 0..total {
			let mut v = Vec::with_capacity(d);
			for _ in 0..d {
				v.push(alpha[idx % alpha.len()].to_string());
				idx /= alpha.len();
			}
			out.push(v);
		}
	}
	out
}

fn decorate(rng: &mut Rng, w_base: &Path, prefix: &str, segs: &[String]) -> String {
	let mut t = String::new();
	// URL prefix of the source (mostly present when there is one)
	if !prefix.is_empty() && !rng.chance(1, 8) {
		t.push_str(norm_prefix(prefix).trim_end_matches('/'));
	}
	match rng.below(12) {
		0 => t.push('/'),                                                            // one extra slash
		1 => t.push_str("//"),                                                       // absolute right operand
		2 => t.push_str(&format!("//{}/root", w_base.display())),                   // absolute path of the root
		3 => t.push_str(&format!("//{}", w_base.display())),                        // absolute path of its parent
		4 => t.push_str(&format!("//{}/root/..", w_base.display())),
		5 => t.push_str(&format!("//{}/{}", w_base.display(), rng.pick(&["rootx", "root-private", "root.d", "root2x", "root2", "root.br"]))),
		_ => {}
	}
	t.push('/');
	t.push_str(&segs.join("/"));
	match rng.below(10) {
		0 => t.push('/'),
		1 => t.push_str("?x=../y"),
		2 => t.push_str("#/../z"),
		_ => {}
	}
	t
}

// ---------------------------------------------------------------- run

#[derive(Default)]
struct Group {
	entries: Vec<Entry>,
	sources: Vec<Source>,
	targets: Vec<String>, // with BASE_TOKEN already replaced by the real base
	/// extra command-line flags (`--fast`, `--disable-api`)
	flags: Vec<String>,
	/// oracle-only requests (no model line): `(kind, request)`; kind "head" compares HEAD with GET
	probes: Vec<(&'static str, String)>,
	/// a second phase on the SAME server after the file system was changed: new listing + targets
	after: Option<(Vec<Entry>, Vec<String>)>,
}

fn with_accept(target: &str, accept: Option<&str>) -> String {
	match accept {
		Some(a) => format!("{target}{SEP}{a}"),
		None => target.to_string(),
	}
}

fn run_group(out: &mut Out, base: &Path, idx: usize, g: &Group, shrink_budget: &mut usize) {
	let server = start_server(base, &g.sources, idx, &g.flags);
	check_targets(out, base, &server, &g.entries, &g.sources, &g.targets, shrink_budget);
	run_probes(out, base, &server, &g.entries, &g.sources, &g.probes);
	if let Some((entries2, targets2)) = &g.after {
		// files created / removed / replaced while the server is running
		change_fixture(base, &g.entries, entries2);
		for (k, s) in g.sources.iter().enumerate() {
			if let Backend::Tar(_) = s.backend {
				// the archive is replaced on disk: the server keeps serving the snapshot read at start-up
				for ext in ["tar", "tar.gz", "tar.br", "tar.br.gz"] {
					let f = base.join(format!("arch{idx}_{k}.{ext}"));
					if f.exists() {
						write_tar(&f, &[("a.txt".to_string(), 2501), ("late.txt".to_string(), 2502), ("../late-secret.txt".to_string(), 2503)]);
					}
				}
			}
		}
		out.count_n("requests_after_fs_change", targets2.len() as u64);
		check_targets(out, base, &server, entries2, &g.sources, targets2, shrink_budget);
		change_fixture(base, entries2, &g.entries);
	}
	drop(server);
}

fn entry_path(e: &Entry) -> &str {
	match e { Entry::Dir(p) => p, Entry::File(p, _) => p }
}

/// turn the fixture `old` into `new` (remove what is gone or changed, create what is new)
fn change_fixture(base: &Path, old: &[Entry], new: &[Entry]) {
	let show = |e: &Entry| match e { Entry::Dir(p) => format!("d:{p}"), Entry::File(p, i) => format!("f:{p}:{i}") };
	let newset: BTreeSet<String> = new.iter().map(show).collect();
	let oldset: BTreeSet<String> = old.iter().map(show).collect();
	for e in old.iter().rev() {
		if !newset.contains(&show(e)) {
			let p = base.join(entry_path(e));
			let _ = if p.is_dir() { std::fs::remove_dir_all(&p) } else { std::fs::remove_file(&p) };
		}
	}
	for e in new {
		if !oldset.contains(&show(e)) {
			match e {
				Entry::Dir(p) => std::fs::create_dir_all(base.join(p)).unwrap(),
				Entry::File(p, id) => {
					let fp = base.join(p);
					std::fs::create_dir_all(fp.parent().unwrap()).unwrap();
					std::fs::write(&fp, body_for(p, *id)).unwrap();
				}
			}
		}
	}
}

/// oracle-only requests: other methods, targets the model does not cover (PATH_MAX, bytes hyper rejects,
/// routed prefixes): a 200 must still carry a file inside a root; HEAD must agree with GET
fn run_probes(out: &mut Out, base: &Path, server: &Server, entries: &[Entry], sources: &[Source], probes: &[(&'static str, String)]) {
	if probes.is_empty() {
		return;
	}
	let world = make_world(base, entries, sources);
	let reqs: Vec<String> = probes.iter().map(|p| p.1.clone()).collect();
	let resps = ask_all(server.addr, &reqs);
	for ((kind, req), r) in probes.iter().zip(resps.iter()) {
		let (method, rest) = req.split_once(MSEP).unwrap_or(("GET", req));
		let (t, accept) = split_req(rest);
		let key = format!("C07probe {kind} {method} {} {}", trunc(&hex(t.as_bytes()), 300), accept.unwrap_or("-"));
		out.eval(&key, true);
		out.count(&format!("probe_{kind}"));
		let mut verdict: Option<(String, String)> = None;
		if *kind == "head" {
			let g = ask(server.addr, &with_accept(t, accept));
			let same = std::mem::discriminant(&g) == std::mem::discriminant(r) || matches!((&g, r), (Resp::Closed, _) | (_, Resp::Closed));
			if !same {
				verdict = Some(("head-differs".into(), format!("HEAD answers {} but GET answers {}", r.show(), g.show())));
			}
		} else if *kind == "routed" || *kind == "raw" {
			// routed (non-static) paths and targets whose path hyper derives in its own way (absolute-form,
			// authority-form, rejected bytes): a 200 may carry anything but a fixture file from outside the roots
			if let Resp::Ok(Some(i)) = r {
				if !world.inside.contains(i) {
					verdict = Some(("escape".into(), format!("200 with the content of file id {i}, which is outside every configured root")));
				}
			}
		} else if let Some((k, m)) = judge(&world, t, r) {
			verdict = Some((k.to_string(), m));
		}
		match verdict {
			None => out.oracle(true, "", json!(null), json!(null)),
			Some((k, m)) => out.oracle(
				false,
				&format!("C07 {k}: {method} {} → {}; {m}", trunc(t, 200), r.show()),
				json!({"kind": k, "probe": kind, "method": method}),
				json!({"target": trunc(t, 2000), "accept": accept, "impl": r.show(), "sources": show_sources(sources)}),
			),
		}
	}
}

/// Symbolic links inside the root that point outside (oracle only – the model has no links):
/// directory link, file link, link to a precompressed file, a harmless link that stays inside.
fn symlink_group(out: &mut Out, base: &Path, entries: &[Entry], idx: usize) {
	use std::os::unix::fs::symlink;
	let root = base.join("rootl");
	std::fs::create_dir_all(root.join("d")).unwrap();
	std::fs::write(root.join("a.txt"), body_for("a.txt", 50)).unwrap();
	std::fs::write(root.join("d/index.html"), body_for("index.html", 51)).unwrap();
	let _ = symlink("../sib", root.join("link"));
	let _ = symlink("../secret.txt", root.join("flink"));
	let _ = symlink("../backup.tar.gz", root.join("arch.tar.gz"));
	let _ = symlink("a.txt", root.join("inlink"));
	let _ = symlink("..", root.join("up"));
	let _ = symlink(base.join("sib"), root.join("abslink"));
	let mut ents = entries.to_vec();
	ents.extend([Entry::Dir("rootl".into()), Entry::File("rootl/a.txt".into(), 50), Entry::Dir("rootl/d".into()), Entry::File("rootl/d/index.html".into(), 51)]);
	let sources = vec![Source { prefix: String::new(), backend: Backend::Folder("rootl".into()) }];
	let server = start_server(base, &sources, idx, &[]);
	let world = make_world(base, &ents, &sources);
	let mut reqs: Vec<String> = vec![];
	for t in ["/a.txt", "/inlink", "/d", "/link/c.txt", "/link", "/link/", "/link/index.html", "/flink", "/arch.tar", "/arch.tar.gz", "/up/secret.txt", "/up/sib/c.txt", "/up/rootl/a.txt", "/abslink/c.txt", "/abslink/", "/link/only.js", "/link/page.html"] {
		reqs.push(t.to_string());
		reqs.push(with_accept(t, Some("gzip, br")));
	}
	let resps = ask_all(server.addr, &reqs);
	for (req, r) in reqs.iter().zip(resps.iter()) {
		let (t, accept) = split_req(req);
		out.eval(&format!("C07symlink {t} {}", accept.unwrap_or("-")), true);
		out.count("probe_symlink");
		match judge(&world, t, r) {
			None => out.oracle(true, "", json!(null), json!(null)),
			Some((_, m)) => out.oracle(
				false,
				&format!("C07 symlink: GET {t} → {}; {m}", r.show()),
				json!({"kind": "symlink-followed", "backend": "folder"}),
				json!({"target": t, "accept": accept, "impl": r.show(), "fixture": "rootl/{link -> ../sib, flink -> ../secret.txt, arch.tar.gz -> ../backup.tar.gz, up -> .., abslink -> <base>/sib}"}),
			),
		}
	}
	drop(server);
}

fn check_targets(out: &mut Out, base: &Path, server: &Server, entries: &[Entry], sources: &[Source], targets: &[String], shrink_budget: &mut usize) {
	let world = make_world(base, entries, sources);
	let resps = ask_all(server.addr, targets);
	let ent = show_entries(entries);
	let src = show_sources(sources);
	let backend = if sources.len() > 1 { "multi" } else { match sources[0].backend { Backend::Folder(_) => "folder", Backend::Tar(_) => "tar" } };
	for (req, r) in targets.iter().zip(resps.iter()) {
		let (t, accept) = split_req(req);
		let acc_field = |a: Option<&str>| a.map_or(String::new(), |a| format!(" {}", hex(a.as_bytes())));
		let t = &t.to_string();
		let (dotdot, absolute, encoded, noise) = features(t);
		let nontrivial = dotdot || absolute || encoded || noise;
		let line = format!("C07 {} {} {} {}{}", base.display(), ent, src, hex(t.as_bytes()), acc_field(accept));
		out.count(&format!("accept_{}", accept.unwrap_or("none").replace(", ", "+")));
		out.case(&line, &r.show(), nontrivial);
		out.count(match r { Resp::Ok(_) => "status_200", Resp::NotFound => "status_404", Resp::Closed => "closed", Resp::Other(_) => "status_other" });
		out.count(&format!("backend_{backend}"));
		for s in uri_path(t).split('/').skip(1) {
			out.count(seg_kind(s));
		}
		out.count(&format!("depth_{}", uri_path(t).split('/').count().saturating_sub(1).min(9)));
		if absolute { out.count("absolute_form"); }
		match judge(&world, t, r) {
			None => out.oracle(true, "", json!(null), json!(null)),
			Some((kind, msg)) => {
				// shrink: drop path segments while the same kind of failure persists
				let mut cur = t.clone();
				if *shrink_budget > 0 {
					*shrink_budget -= 1;
					loop {
						let parts: Vec<&str> = cur.split('/').collect();
						let mut better = None;
						for i in 1..parts.len() {
							let mut p = parts.clone();
							p.remove(i);
							let cand = p.join("/");
							if cand.is_empty() || !cand.starts_with('/') { continue; }
							let rr = ask(server.addr, &with_accept(&cand, accept));
							if let Some((k2, _)) = judge(&world, &cand, &rr) {
								if k2 == kind { better = Some(cand); break; }
							}
						}
						match better { Some(b) => cur = b, None => break }
					}
				}
				let rr = ask(server.addr, &with_accept(&cur, accept));
				let (d2, a2, e2, _) = features(&cur);
				let small = format!("C07 {} {} {} {}{}", BASE_TOKEN, ent, src, hex(cur.replace(&base.display().to_string(), BASE_TOKEN).as_bytes()), acc_field(accept));
				out.oracle(
					false,
					&format!("C07 {kind}: GET {}{} → {}; {msg}", trunc(&cur, 200), accept.map_or(String::new(), |a| format!(" [Accept-Encoding: {a}]")), rr.show()),
					json!({"kind": kind, "backend": backend, "dotdot": d2, "absolute": a2, "encoded": e2, "accept": accept.is_some()}),
					json!({"case": small, "target": cur, "impl": rr.show(), "original_target": t, "sources": src}),
				);
			}
		}
	}
}

pub fn run(args: &Args) {
	quiet_panics();
	let mut out = Out::new(&args.out);
	out.rule = "raw HTTP/1.1 GET requests (target bytes sent verbatim) against `versatiles serve` with folder / tar static sources, with and without URL prefix, and a multi-source configuration; fixture with canary files outside the roots (incl. siblings named after the root: <root>.html/.htm/.br/.gz/.html.br/.tar/~/.bak/, <parent>.html) and roots with / without index.html / with only index.html.br|.gz; directory-style requests at every level of every root; server instances whose working directory is the static root itself (`--static .`), a sub-directory of it or a sibling, and absolute / dotted / trailing-slash spellings of the root; targets: all sequences of depth ≤3 (thorough ≤4) over a small segment alphabet (names, '.', '..', empty, %2e%2e, …) plus seeded random sequences of depth ≤6 over a large alphabet, plus absolute-path targets (//, /// after the URL prefix) at every sibling whose path string extends a root's path string (rootx/…, root.br, root-private/…), plus every file outside a root (canaries, precompressed-only .br/.gz siblings) via '..' and absolute forms with and without its extension; requests carry no Accept-Encoding or one of gzip / br / 'gzip, br' / identity (all five for the fixed list and the outside-file targets, one seeded variant for the bulk); plus oracle-only probes (HEAD vs GET on the fixed list, POST/PUT/DELETE/OPTIONS/PATCH, targets of 5-40 kB, bytes hyper rejects, absolute-form and authority-form targets, the routed prefixes /status and /tiles/…), a second phase on the same server after files were created / removed / replaced (tar archives rewritten on disk), tar archives wrapped as .tar / .tar.gz / .tar.br / .tar.br.gz, non-regular tar entries, overlapping and repeated URL prefixes in both source orders, --fast --disable-api, empty and 2 MiB files, a symlink fixture; plus guided walks (existing files, directories and archive members perturbed by '.', empty, 'x/..', '..', partially encoded segments, dropped .br/.gz extensions) with extra leading slashes, absolute-path injections, trailing slash, ?query/#fragment; non-trivial = the path contains a '..', '.', empty, percent-encoded or backslash segment or an absolute form; distinct by case text".into();
	std::fs::create_dir_all(&args.out).unwrap();
	let base = std::fs::canonicalize(&args.out).unwrap().join("w");
	let base_s = base.display().to_string();
	let mut shrink_budget = 12usize;

	if let Some(p) = &args.replay {
		// group lines by fixture + sources; the stored base is replaced by this run's base
		let mut groups: Vec<(String, Group)> = vec![];
		for line in std::fs::read_to_string(p).unwrap().lines() {
			let t: Vec<&str> = line.split(' ').collect();
			if (t.len() != 5 && t.len() != 6) || t[0] != "C07" {
				continue;
			}
			let mut target = String::from_utf8_lossy(&unhex(t[4])).to_string().replace(t[1], &base_s);
			if t.len() == 6 {
				target = with_accept(&target, Some(&String::from_utf8_lossy(&unhex(t[5]))));
			}
			let key = format!("{} {}", t[2], t[3]);
			match groups.iter_mut().find(|g| g.0 == key) {
				Some(g) => g.1.targets.push(target),
				None => groups.push((key, Group { entries: parse_entries(t[2]), sources: parse_sources(t[3]), targets: vec![target], ..Default::default() })),
			}
		}
		for (i, (_, g)) in groups.iter().enumerate() {
			build_fixture(&base, &g.entries);
			run_group(&mut out, &base, i, g, &mut shrink_budget);
		}
		let _ = std::fs::remove_dir_all(&base);
		out.finish();
		return;
	}

	let mut rng = Rng::new(args.seed);
	let entries = default_entries();
	let members = default_members();
	build_fixture(&base, &entries);
	let folder = |p: &str, r: &str| Source { prefix: p.into(), backend: Backend::Folder(r.into()) };
	let tar = |p: &str| Source { prefix: p.into(), backend: Backend::Tar(members.clone()) };
	let mut configs: Vec<Vec<Source>> = vec![
		vec![folder("", "root")],
		vec![folder("/assets", "root")],
		vec![tar("")],
		vec![tar("/t")],
		vec![folder("/assets/x", "root2"), tar("/t"), folder("", "root")],
	];
	let n_full = configs.len();
	// option interplay: overlapping URL prefixes, the same prefix in both orders (tar before folder and
	// folder before tar), prefix given without slash / with trailing slash; these run a lighter target set
	configs.push(vec![folder("/assets", "root2"), folder("/assets/x", "root")]);
	configs.push(vec![tar(""), folder("", "root")]);
	configs.push(vec![folder("", "root"), tar("")]);
	configs.push(vec![folder("assets/", "root"), tar("assets")]);
	configs.push(vec![folder("", "root")]); // with --fast --disable-api (see flags below)
	let flags_cfg = configs.len() - 1;
	// roots without an index.html, with only index.html.br / index.html.gz, with and without URL prefix
	configs.push(vec![folder("", "site/noidx")]);
	configs.push(vec![folder("/assets", "site/noidx")]);
	configs.push(vec![folder("", "site/bridx")]);
	configs.push(vec![folder("/p", "site/gzidx"), tar("")]);
	// launch variants: the static root IS the working directory (`--static .`), a sub-directory of it is,
	// absolute / dotted / trailing-slash spellings of the root
	let launch_first = configs.len();
	let launches: Vec<(Vec<Source>, Vec<String>)> = vec![
		(vec![folder("", "root")], vec!["@cwd=root".into(), "@spell=.".into()]),
		(vec![folder("/assets", "root")], vec!["@cwd=root".into(), "@spell=./".into()]),
		(vec![folder("", "root")], vec!["@cwd=root/sub".into(), "@spell=..".into()]),
		(vec![folder("", "root")], vec![format!("@spell={BASE_TOKEN}/root")]),
		(vec![folder("", "root")], vec!["@spell=./root/".into()]),
		(vec![folder("", "site/noidx")], vec!["@cwd=site".into(), "@spell=../site/./noidx".into()]),
		(vec![folder("", "site/noidx"), tar("/t")], vec!["@cwd=site/noidx".into(), "@spell=.".into()]),
	];
	for (c, _) in &launches {
		configs.push(c.clone());
	}
	if args.thorough() {
		configs.push(vec![folder("pre/fix/", "root")]);
		configs.push(vec![tar("assets"), folder("assets", "root2")]);
	}

	let fixed: Vec<&str> = vec![
		"/", "/a.txt", "/../secret.txt", "/..", "/.", "/sub", "/sub/", "/sub/..", "/sub/../a.txt", "/sub/../../secret.txt",
		"/nope/../a.txt", "/a.txt/../a.txt", "/a.txt/.", "/a.txt/", "//a.txt", "///a.txt", "/@BASE@/root/a.txt", "//@BASE@/root/a.txt",
		"///@BASE@/root/a.txt", "//@BASE@/root/../secret.txt", "//@BASE@/secret.txt", "//@BASE@/root", "//@BASE@/root/", "//@BASE@",
		"//@BASE@/rootx/a.txt", "/../rootx/a.txt", "/../root/a.txt", "/../root.br", "/weird", "/weird/", "/brdir", "/brdir/", "/nodex", "/nodex/",
		"/b.txt", "/c.txt", "/a.txt.br", "/%2e%2e/secret.txt", "/%2e%2e/p.txt", "/..%2fsecret.txt", "/%2E%2E/secret.txt", "/..\\x.txt",
		"/..\\secret.txt", "/sub/deep/../../../sib/c.txt", "/sub/deep/../../sib/c.txt", "/.hidden", "/...", "/..a", "/root/a.txt",
		"/a.txt?x=1", "/a.txt#f", "/../secret.txt?x", "/assets", "/assets/", "/assets/a.txt", "/assets/../secret.txt", "/assets/../a.txt",
		"/assets//a.txt", "/assets///a.txt", "/assets//@BASE@/secret.txt", "/assets///@BASE@/secret.txt", "/assets///@BASE@/root/a.txt",
		"/assetsa.txt", "/assets/x/", "/assets/x/a.txt", "/assets/x/r2.txt", "/assets/x/../a.txt", "/assets/x/../../secret.txt",
		"/t", "/t/", "/t/a.txt", "/t/sub", "/t/sub/", "/t/sub/x.txt", "/t/dot/y.txt", "/t/hid/z.txt", "/t/c.txt", "/t/b.txt", "/t/up.txt",
		"/t/../up.txt", "/t/d/../e.txt", "/t/d/e.txt", "/t/nest/deep", "/t/nest/deep/", "/t/secret.txt", "/t/../secret.txt", "/t//a.txt",
		"/sub/x.txt", "/dot/y.txt", "/hid/z.txt", "/up.txt", "/d/../e.txt", "/nest/deep", "/sub//dbl.txt", "/sub/dbl.txt", "/%2e%2e/enc.txt",
		"/pre/fix/a.txt", "/pre/fix/../a.txt", "/pre/fix/../../secret.txt", "/pre/a.txt",
		"//etc/passwd", "///etc/passwd", "/../../../../../../../../etc/passwd", "/%2e%2e/%2e%2e/etc/passwd", "/..%2f..%2fetc/passwd",
		"/%2E%2E/", "/%2E%2E/secret.txt", "/assets///etc/passwd", "/t///etc/passwd", "/..\\..\\etc\\passwd",
	];

	let small = exhaustive(if args.thorough() { SEG_MED } else { SEG_SMALL }, if args.thorough() { 4 } else { 3 });
	let n_random_full = args.n(1500, 12000);
	let small2: Vec<Vec<String>> = small.iter().filter(|s| s.len() <= 2).cloned().collect();
	for (ci, sources) in configs.iter().enumerate() {
		let light = ci >= n_full && !args.thorough();
		let small = if light { &small2 } else { &small };
		let n_random = if light { n_random_full / 4 } else { n_random_full };
		let prefixes: Vec<String> = sources.iter().map(|s| s.prefix.clone()).collect();
		let mut targets: Vec<String> = fixed.iter().map(|t| t.replace(BASE_TOKEN, &base_s)).collect();
		// exhaustive short sequences (under the first source's prefix, and for prefixed sources also bare)
		for segs in small.iter() {
			let p0 = if prefixes[0].is_empty() { String::new() } else { norm_prefix(&prefixes[0]).trim_end_matches('/').to_string() };
			targets.push(format!("{}/{}", p0, segs.join("/")));
		}
		if !prefixes[0].is_empty() {
			for segs in small.iter().filter(|s| s.len() <= 2) {
				targets.push(format!("/{}", segs.join("/")));
			}
		}
		// seeded random deeper sequences
		for _ in 0..n_random {
			let depth = rng.range(1, 6) as usize;
			let segs: Vec<String> = (0..depth)
				.map(|_| if rng.chance(1, 3) { (*rng.pick(SEG_SMALL)).to_string() } else { (*rng.pick(SEG_ALL)).to_string() })
				.collect();
			let pfx = rng.pick(&prefixes).clone();
			targets.push(decorate(&mut rng, &base, &pfx, &segs));
		}
		// guided: existing files / directories / archive members, perturbed by no-op and parent segments
		let mut known: Vec<String> = vec![];
		for s in sources {
			match &s.backend {
				Backend::Folder(r) => {
					let rp = format!("{r}/");
					for e in &entries {
						let p = match e { Entry::Dir(p) => p, Entry::File(p, _) => p };
						if let Some(rel) = p.strip_prefix(&rp) {
							known.push(format!("{}\u{1}{}", s.prefix, rel));
						}
					}
				}
				Backend::Tar(ms) => known.extend(ms.iter().map(|m| format!("{}\u{1}{}", s.prefix, m.0.trim_start_matches(['.', '/'])))),
			}
		}
		for _ in 0..args.n(1200, 8000) {
			let k = rng.pick(&known).clone();
			let (pfx, rel) = k.split_once('\u{1}').unwrap();
			let mut segs: Vec<String> = rel.split('/').map(|x| x.to_string()).collect();
			if rng.chance(1, 3) {
				// strip a precompressed extension so that the sibling lookup is exercised
				if let Some(l) = segs.last_mut() {
					if l.ends_with(".br") || l.ends_with(".gz") { l.truncate(l.len() - 3); }
				}
			}
			for _ in 0..rng.below(3) {
				let at = rng.below(segs.len() as u64 + 1) as usize;
				match rng.below(6) {
					0 => segs.insert(at, ".".into()),
					1 => segs.insert(at, "".into()),
					2 => { segs.insert(at, "..".into()); segs.insert(at, (*rng.pick(&["sub", "nope", "a.txt", "root"])).to_string()); }
					3 => segs.insert(at, "..".into()),
					4 => segs.insert(at, "%2e".into()),
					_ => { if at < segs.len() { segs[at] = segs[at].replace('.', "%2e"); } }
				}
			}
			let mut t = String::new();
			if !pfx.is_empty() { t.push_str(norm_prefix(pfx).trim_end_matches('/')); }
			if rng.chance(1, 10) { t.push_str(&format!("//{}/root", base.display())); }
			t.push('/');
			t.push_str(&segs.join("/"));
			if rng.chance(1, 6) { t.push('/'); }
			targets.push(t);
		}
		// guided: absolute right operands (repeated slashes after the URL prefix make `PathBuf::join`
		// replace the base) that point at siblings whose path string merely *extends* the root's path
		// string (rootx/…, root.br, root-private/…) – a textual prefix test would accept them
		for s in sources {
			if let Backend::Folder(r) = &s.backend {
				let pfx = if s.prefix.is_empty() { String::new() } else { norm_prefix(&s.prefix).trim_end_matches('/').to_string() };
				let inside = format!("{r}/");
				let mut outs: Vec<String> = vec![];
				for e in &entries {
					let p = match e { Entry::Dir(p) => p, Entry::File(p, _) => p };
					if p.starts_with(r.as_str()) && !p.starts_with(&inside) && p != r {
						outs.push(p.clone());
						for ext in [".br", ".gz"] {
							if let Some(q) = p.strip_suffix(ext) { outs.push(q.to_string()); }
						}
						if let Some(q) = p.strip_suffix("/index.html") { outs.push(format!("{q}/")); }
					}
				}
				outs.sort();
				outs.dedup();
				for p in &outs {
					let abs = format!("{}/{}", base.display(), p);
					for lead in ["//", "///", "////"] {
						for pf in [pfx.as_str(), ""] {
							targets.push(format!("{pf}{lead}{}", &abs[1..]));
							targets.push(format!("{pf}{lead}{}/", &abs[1..]));
						}
					}
					// with no-op noise inside the absolute path
					targets.push(format!("{pfx}///{}", abs[1..].replace('/', "/./")));
					targets.push(format!("{pfx}///{}", abs[1..].replace('/', "//")));
					targets.push(format!("{pfx}///{}?x", &abs[1..]));
				}
			}
		}
		// guided: every file OUTSIDE a folder root (canaries, precompressed-only siblings) through
		// parent segments and absolute forms, with and without its .br/.gz extension
		let mut critical: Vec<String> = vec![];
		for s in sources {
			if let Backend::Folder(r) = &s.backend {
				let pfx = if s.prefix.is_empty() { String::new() } else { norm_prefix(&s.prefix).trim_end_matches('/').to_string() };
				let inside = format!("{r}/");
				let up = "../".repeat(r.split('/').count());
				for e in &entries {
					if let Entry::File(p, _) = e {
						if p.starts_with(&inside) { continue; }
						let mut names = vec![p.clone()];
						for ext in [".br", ".gz"] {
							if let Some(q) = p.strip_suffix(ext) { names.push(q.to_string()); }
						}
						for n in names {
							critical.push(format!("{pfx}/{up}{n}"));
							critical.push(format!("{pfx}/sub/../{up}{n}"));
							critical.push(format!("{pfx}///{}/{n}", &base_s[1..]));
							critical.push(format!("{pfx}///{}/{r}/{up}{n}", &base_s[1..]));
						}
					}
				}
			}
		}
		// directory-style requests at every level of every folder root (and the root itself)
		for s in sources {
			if let Backend::Folder(r) = &s.backend {
				let pfx = if s.prefix.is_empty() { String::new() } else { norm_prefix(&s.prefix).trim_end_matches('/').to_string() };
				let inside = format!("{r}/");
				let mut dirs: Vec<String> = vec![String::new()];
				for e in &entries {
					if let Entry::Dir(p) = e {
						if let Some(rel) = p.strip_prefix(&inside) { dirs.push(format!("/{rel}")); }
					}
				}
				for d in &dirs {
					for form in ["", "/", "/index.html", "/.", "/./", "//", "/index.html/", ".html", "/index.html.br", "/../index.html", "/index.htm", "/index.html.html"] {
						critical.push(format!("{pfx}{d}{form}"));
					}
					if let Some((par, last)) = d.rsplit_once('/') {
						critical.push(format!("{pfx}{par}/{last}.html"));
						critical.push(format!("{pfx}{d}/../{last}.html"));
					}
				}
				if !pfx.is_empty() { critical.push(pfx.clone()); }
			}
		}
		// Accept-Encoding: the fixed list and the outside-file targets are sent with every header
		// variant, the bulk with one seeded variant each
		let n_fixed = fixed.len();
		let mut reqs: Vec<String> = Vec::with_capacity(targets.len() + 5 * (critical.len() + n_fixed));
		for (i, t) in targets.iter().enumerate() {
			if i < n_fixed {
				reqs.push(t.clone());
				reqs.extend(ACCEPTS.iter().map(|a| with_accept(t, Some(a))));
			} else {
				match rng.below(3) {
					0 => reqs.push(t.clone()),
					_ => { let a: &str = ACCEPTS[rng.below(ACCEPTS.len() as u64) as usize]; reqs.push(with_accept(t, Some(a))) }
				}
			}
		}
		critical.retain(|t| t.starts_with('/'));
		critical.sort();
		critical.dedup();
		for (i, t) in critical.iter().enumerate() {
			// without header, with one core variant in rotation (every 5th target: all core variants), one rare variant on every 3rd
			reqs.push(t.clone());
			if i % 5 == 0 {
				reqs.extend(ACCEPTS[..ACCEPTS_CORE].iter().map(|a| with_accept(t, Some(a))));
			} else {
				reqs.push(with_accept(t, Some(ACCEPTS[i % ACCEPTS_CORE])));
			}
			if i % 3 == 0 {
				reqs.push(with_accept(t, Some(ACCEPTS[ACCEPTS_CORE + (i / 3) % (ACCEPTS.len() - ACCEPTS_CORE)])));
			}
		}
		let targets = reqs;
		// ---- oracle-only probes
		let mut probes: Vec<(&'static str, String)> = vec![];
		let fixed_t: Vec<String> = fixed.iter().map(|t| t.replace(BASE_TOKEN, &base_s)).collect();
		for t in fixed_t.iter().chain(critical.iter().step_by(7)) {
			probes.push(("head", format!("HEAD{MSEP}{t}")));
			probes.push(("head", format!("HEAD{MSEP}{}", with_accept(t, Some("gzip, br")))));
		}
		for t in fixed_t.iter().step_by(3) {
			for m in ["POST", "PUT", "DELETE", "OPTIONS", "PATCH"] {
				probes.push(("method", format!("{m}{MSEP}{t}")));
			}
		}
		let p0 = if prefixes[0].is_empty() { String::new() } else { norm_prefix(&prefixes[0]).trim_end_matches('/').to_string() };
		// very long targets (PATH_MAX / NAME_MAX are outside the model)
		for t in [
			format!("{p0}/{}a.txt", "./".repeat(3000)),
			format!("{p0}/{}a.txt", "sub/../".repeat(900)),
			format!("{p0}/{}secret.txt", "../".repeat(2500)),
			format!("{p0}/{}", "x".repeat(300)),
			format!("{p0}/{}", "x".repeat(20000)),
			format!("{p0}/{}a.txt", "/".repeat(5000)),
			format!("{p0}///{}/{}secret.txt", &base_s[1..], "./".repeat(2500)),
			format!("{p0}/a.txt?{}", "q".repeat(30000)),
			format!("{p0}/{}/../../../../secret.txt", "sub/deep/../..".repeat(400)),
		] {
			probes.push(("long", t.clone()));
			probes.push(("long", with_accept(&t, Some("br"))));
		}
		// bytes hyper refuses or that end the request line, sent verbatim
		for t in ["/a b", "/a.txt\u{0}", "/..\u{0}/secret.txt", "/../secret.txt\u{0}.txt", "/\u{7f}", "/%", "/%zz/../secret.txt", "/a.txt\t", "/<>", "/`", "/../secret.txt HTTP/1.1\r\nX: y", "/\u{e4}/../secret.txt", "*", "http://localhost/../secret.txt", "http://x/a.txt", "//localhost/../secret.txt", "localhost:1"] {
			probes.push(("raw", format!("{p0}{t}")));
			probes.push(("raw", t.to_string()));
		}
		// routed prefixes: these paths belong to other handlers, but must not leak files either
		for t in ["/status", "/status/", "/status/../secret.txt", "/tiles/index.json", "/tiles/index.json/../../secret.txt", "/tiles/zztiles/../../secret.txt", "/tiles/zztiles/0/0/0", "/tiles/zztiles/..%2f..%2fsecret.txt", "/tiles/../secret.txt", "/tiles//../secret.txt", "/tiles/zztiles/tiles.json", "/tiles/zztiles//../../a.txt"] {
			probes.push(("routed", t.to_string()));
			probes.push(("routed", with_accept(t, Some("gzip"))));
		}
		// ---- files created / removed / replaced after start-up (first folder and first tar configuration)
		let after = if ci == 0 || ci == 2 {
			let mut e2: Vec<Entry> = entries.iter().filter(|e| !matches!(entry_path(e), "root/b.txt.gz" | "root/sub/x.txt" | "root/nodex" | "root/nodex/n.txt" | "root/a.txt")).cloned().collect();
			e2.extend([
				Entry::File("root/late.txt".into(), 40), Entry::Dir("root/latedir".into()), Entry::File("root/latedir/index.html".into(), 42),
				Entry::File("late-secret.txt".into(), 1030), Entry::File("late-secret2.txt.gz".into(), 1031), Entry::Dir("root/sub/x.txt".into()),
				Entry::File("root/a.txt".into(), 43), Entry::File("rootx/late.txt".into(), 1032),
			]);
			let mut t2: Vec<String> = fixed_t.clone();
			for t in ["/late.txt", "/latedir", "/latedir/", "/b.txt", "/sub/x.txt", "/sub/x.txt/", "/nodex/n.txt", "/nodex", "/../late-secret.txt", "/../late-secret2.txt", "/a.txt"] {
				t2.push(format!("{p0}{t}"));
				t2.push(with_accept(&format!("{p0}{t}"), Some("gzip")));
			}
			t2.push(format!("{p0}///{}/late-secret.txt", &base_s[1..]));
			t2.push(format!("{p0}///{}/rootx/late.txt", &base_s[1..]));
			Some((e2, t2))
		} else {
			None
		};
		let flags: Vec<String> = if ci == flags_cfg {
			vec!["--fast".into(), "--disable-api".into()]
		} else if ci >= launch_first && ci < launch_first + launches.len() {
			launches[ci - launch_first].1.clone()
		} else {
			vec![]
		};
		let g = Group { entries: entries.clone(), sources: sources.clone(), targets, flags, probes, after };
		run_group(&mut out, &base, ci, &g, &mut shrink_budget);
	}
	symlink_group(&mut out, &base, &entries, configs.len());
	out.exhaustive = true;
	out.notes.push("class notes: no numeric thresholds in the anchored files (class 1 n.a.); PATH_MAX / bytes hyper rejects / other methods / routed prefixes are probed by the oracle only (no model line); symbolic links are outside the model, the symlink fixture is judged by the oracle only".into());
	out.notes.push(format!(
		"exhaustive part: all segment sequences of depth ≤{} over {:?} for each of {} server configurations; canaries: {} files outside the roots",
		if args.thorough() { 4 } else { 3 },
		if args.thorough() { SEG_MED } else { SEG_SMALL },
		configs.len(),
		entries.iter().filter(|e| matches!(e, Entry::File(p, _) if !p.starts_with("root"))).count()
	));
	out.extra.insert("configs".into(), json!(configs.iter().map(|c| show_sources(c)).map(|s| trunc(&s, 120)).collect::<Vec<_>>()));
	let _ = std::fs::remove_dir_all(&base);
	out.finish();
}
