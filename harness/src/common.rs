//! Shared plumbing of the verification harness: seeded PRNG, case/impl/oracle writers, statistics.
use serde_json::{json, Value};
use std::collections::{BTreeMap, HashSet};
use std::fs::File;
use std::io::{BufWriter, Write};
use std::path::{Path, PathBuf};

/// SplitMix64 – every random choice of a run derives from one state.
#[derive(Clone)]
pub struct Rng(pub u64);
impl Rng {
	pub fn new(seed: u64) -> Self {
		Rng(seed ^ 0x9E37_79B9_7F4A_7C15)
	}
	pub fn next(&mut self) -> u64 {
		self.0 = self.0.wrapping_add(0x9E37_79B9_7F4A_7C15);
		let mut z = self.0;
		z = (z ^ (z >> 30)).wrapping_mul(0xBF58_476D_1CE4_E5B9);
		z = (z ^ (z >> 27)).wrapping_mul(0x94D0_49BB_1331_11EB);
		z ^ (z >> 31)
	}
	/// uniform in 0..n (n ≥ 1)
	pub fn below(&mut self, n: u64) -> u64 {
		if n <= 1 {
			0
		} else {
			self.next() % n
		}
	}
	pub fn range(&mut self, lo: u64, hi_incl: u64) -> u64 {
		lo + self.below(hi_incl - lo + 1)
	}
	pub fn chance(&mut self, num: u64, den: u64) -> bool {
		self.below(den) < num
	}
	pub fn pick<'a, T>(&mut self, xs: &'a [T]) -> &'a T {
		&xs[self.below(xs.len() as u64) as usize]
	}
	pub fn bytes(&mut self, n: usize) -> Vec<u8> {
		(0..n).map(|_| self.next() as u8).collect()
	}
	pub fn fork(&mut self) -> Rng {
		Rng(self.next())
	}
}

pub fn hex(b: &[u8]) -> String {
	if b.is_empty() {
		return "-".to_string();
	}
	let mut s = String::with_capacity(b.len() * 2);
	for x in b {
		s.push_str(&format!("{x:02x}"));
	}
	s
}
pub fn unhex(s: &str) -> Vec<u8> {
	if s == "-" {
		return vec![];
	}
	(0..s.len() / 2).map(|i| u8::from_str_radix(&s[2 * i..2 * i + 2], 16).unwrap()).collect()
}

pub struct Args {
	pub tier: String,
	pub seed: u64,
	pub out: PathBuf,
	pub replay: Option<PathBuf>,
	pub extra: Vec<String>,
}
impl Args {
	pub fn thorough(&self) -> bool {
		self.tier == "thorough"
	}
	/// pick a count by tier
	pub fn n(&self, quick: usize, thorough: usize) -> usize {
		if self.thorough() {
			thorough
		} else {
			quick
		}
	}
}

/// Collects everything a run produces.
pub struct Out {
	dir: PathBuf,
	cases: BufWriter<File>,
	impl_: BufWriter<File>,
	pub n_cases: u64,
	pub evaluations: u64,
	distinct: HashSet<u64>,
	pub nontrivial: u64,
	pub samples: Vec<Value>,
	pub dist: BTreeMap<String, u64>,
	pub oracle_fail: Vec<Value>,
	fail_by_sig: BTreeMap<String, u64>,
	pub oracle_checks: u64,
	pub rule: String,
	pub notes: Vec<String>,
	pub exhaustive: bool,
	pub extra: BTreeMap<String, Value>,
}

fn fnv(s: &str) -> u64 {
	let mut h: u64 = 0xcbf29ce484222325;
	for b in s.as_bytes() {
		h ^= *b as u64;
		h = h.wrapping_mul(0x100000001b3);
	}
	h
}

impl Out {
	pub fn new(dir: &Path) -> Self {
		std::fs::create_dir_all(dir).unwrap();
		Out {
			dir: dir.to_path_buf(),
			cases: BufWriter::new(File::create(dir.join("cases.txt")).unwrap()),
			impl_: BufWriter::new(File::create(dir.join("impl.txt")).unwrap()),
			n_cases: 0,
			evaluations: 0,
			distinct: HashSet::new(),
			nontrivial: 0,
			samples: vec![],
			dist: BTreeMap::new(),
			oracle_fail: vec![],
			fail_by_sig: BTreeMap::new(),
			oracle_checks: 0,
			rule: String::new(),
			notes: vec![],
			exhaustive: false,
			extra: BTreeMap::new(),
		}
	}
	pub fn dir(&self) -> &Path {
		&self.dir
	}
	/// A case that is sent to the Lean model: `case` is the request line, `impl_out` the
	/// implementation's canonical answer.  `nontrivial` per the property's rule.
	pub fn case(&mut self, case: &str, impl_out: &str, nontrivial: bool) {
		debug_assert!(!case.contains('\n') && !impl_out.contains('\n'));
		writeln!(self.cases, "{case}").unwrap();
		writeln!(self.impl_, "{impl_out}").unwrap();
		self.n_cases += 1;
		self.eval(case, nontrivial);
		if self.samples.len() < 5 || (self.samples.len() < 12 && nontrivial && self.n_cases % 97 == 0) {
			self.samples.push(json!({"case": trunc(case, 400), "impl": trunc(impl_out, 400)}));
		}
	}
	/// count an evaluation that has no model line (oracle-only)
	pub fn eval(&mut self, key: &str, nontrivial: bool) {
		self.evaluations += 1;
		if nontrivial && self.distinct.insert(fnv(key)) {
			self.nontrivial += 1;
		}
	}
	pub fn sample(&mut self, v: Value) {
		if self.samples.len() < 16 {
			self.samples.push(v);
		}
	}
	pub fn count(&mut self, key: &str) {
		*self.dist.entry(key.to_string()).or_insert(0) += 1;
	}
	pub fn count_n(&mut self, key: &str, n: u64) {
		*self.dist.entry(key.to_string()).or_insert(0) += n;
	}
	/// direct oracle verdict; `ok=false` records a failure with its signature (used to match known findings)
	pub fn oracle(&mut self, ok: bool, what: &str, sig: Value, detail: Value) {
		self.oracle_checks += 1;
		if !ok {
			// keep at most 8 failures per signature so that one defect cannot crowd out another
			let key = sig.to_string();
			let n = self.fail_by_sig.entry(key).or_insert(0);
			*n += 1;
			if *n <= 8 && self.oracle_fail.len() < 400 {
				self.oracle_fail.push(json!({"what": what, "sig": sig, "detail": detail}));
			}
			self.count("oracle_fail_total");
		}
	}
	pub fn finish(mut self) {
		self.cases.flush().unwrap();
		self.impl_.flush().unwrap();
		let stats = json!({
			"cases": self.n_cases,
			"evaluations": self.evaluations,
			"distinct_nontrivial": self.nontrivial,
			"rule": self.rule,
			"samples": self.samples,
			"distribution": self.dist,
			"oracle_checks": self.oracle_checks,
			"oracle_failures": self.oracle_fail,
			"notes": self.notes,
			"exhaustive": self.exhaustive,
			"extra": self.extra,
		});
		std::fs::write(self.dir.join("stats.json"), serde_json::to_string_pretty(&stats).unwrap()).unwrap();
	}
}

pub fn trunc(s: &str, n: usize) -> String {
	if s.len() <= n {
		s.to_string()
	} else {
		let mut e = n;
		while !s.is_char_boundary(e) {
			e -= 1;
		}
		format!("{}…[{} bytes]", &s[..e], s.len())
	}
}

/// Run `f`, mapping a panic to `Err(message)`.
pub fn catch<T>(f: impl FnOnce() -> T) -> Result<T, String> {
	match std::panic::catch_unwind(std::panic::AssertUnwindSafe(f)) {
		Ok(v) => Ok(v),
		Err(e) => {
			let msg = if let Some(s) = e.downcast_ref::<&str>() {
				s.to_string()
			} else if let Some(s) = e.downcast_ref::<String>() {
				s.clone()
			} else {
				"panic".to_string()
			};
			Err(msg)
		}
	}
}

pub fn quiet_panics() {
	std::panic::set_hook(Box::new(|_| {}));
}
