//! Correspondence for `versatiles_container::{get_reader, write_to_filename}` (container/getters.rs): which reader /
//! writer a file name is dispatched to.  Streams (model: lean/VtModel/Getters.lean):
//!   `GTR <namehex> <none|file|dir>` -> container name of the reader that opened the path | `err`
//!   `GTW <namehex> <none|file|dir>` -> kind of container that was written (detected from the bytes on disk) | `err`
//! The name is the complete string handed to the real function: an absolute path inside a scratch directory (the real
//! `get_extension` works on the whole string, so dots in directory names matter: `/a.b/noext` has the "extension" `b/noext`).
//! For `file`, the path is tried with the content of every container kind (written once by the real writers): the real
//! dispatch opens exactly the content that matches the reader it chose, so the answer is the container name of the
//! successful open (or `err` if none opens).  URL names are not sent to the real code (no network in the sandbox).
use crate::c16::{Ctx, Runtime};
use crate::common::*;
use crate::memsrc::MemSource;
use std::path::{Path, PathBuf};
use versatiles_container::{get_reader, write_to_filename, DirectoryTilesWriter, TilesWriterTrait};
use versatiles_core::types::*;

fn source() -> MemSource {
	let tiles = vec![(TileCoord3::new(0, 0, 0).unwrap(), Blob::from(vec![1u8, 2, 3])), (TileCoord3::new(1, 0, 1).unwrap(), Blob::from(vec![4u8]))];
	MemSource::new("getters", TileFormat::PNG, TileCompression::Uncompressed, tiles)
}

struct Templates {
	files: Vec<(&'static str, PathBuf)>,
	dir: PathBuf,
}

fn copy_dir(from: &Path, to: &Path) {
	std::fs::create_dir_all(to).unwrap();
	for e in std::fs::read_dir(from).unwrap() {
		let e = e.unwrap();
		let t = to.join(e.file_name());
		if e.path().is_dir() {
			copy_dir(&e.path(), &t);
		} else {
			std::fs::copy(e.path(), t).unwrap();
		}
	}
}

fn templates(rt: &Runtime, root: &Path) -> Templates {
	let tdir = root.join("templates");
	std::fs::create_dir_all(&tdir).unwrap();
	let mut files = vec![];
	for k in ["versatiles", "pmtiles", "mbtiles", "tar"] {
		let p = tdir.join(format!("t.{k}"));
		rt.block_on(write_to_filename(&mut source(), p.to_str().unwrap())).expect("template container");
		files.push((k, p));
	}
	let dir = tdir.join("tree");
	std::fs::create_dir_all(&dir).unwrap();
	rt.block_on(DirectoryTilesWriter::write_to_path(&mut source(), &dir)).expect("template directory");
	let vpl = tdir.join("t.vpl");
	std::fs::write(&vpl, "from_debug format=pbf").unwrap();
	files.push(("vpl", vpl));
	Templates { files, dir }
}

fn open_name(rt: &Runtime, p: &Path) -> Option<String> {
	let s = p.to_str().unwrap().to_string();
	match catch(|| rt.block_on(get_reader(&s)).map(|r| r.get_container_name().to_string())) {
		Ok(Ok(n)) => Some(n),
		Ok(Err(_)) => None,
		Err(_) => Some("panic".into()),
	}
}

fn answer_read(rt: &Runtime, t: &Templates, p: &Path, kind: &str) -> String {
	let p = p.to_path_buf();
	crate::c16::rm(&p);
	let r = match kind {
		"none" => open_name(rt, &p).unwrap_or("err".into()),
		"dir" => {
			copy_dir(&t.dir, &p);
			open_name(rt, &p).unwrap_or("err".into())
		}
		_ => {
			let mut got: Vec<String> = vec![];
			for (_, tp) in &t.files {
				std::fs::copy(tp, &p).unwrap();
				if let Some(n) = open_name(rt, &p) {
					if !got.contains(&n) {
						got.push(n);
					}
				}
				crate::c16::rm(&p);
			}
			if got.is_empty() {
				"err".into()
			} else {
				got.join("+")
			}
		}
	};
	crate::c16::rm(&p);
	r
}

fn detect(p: &Path) -> String {
	if p.is_dir() {
		return if p.join("tiles.json").exists() { "directory".into() } else { "empty-dir".into() };
	}
	match std::fs::read(p) {
		Err(_) => "nothing".into(),
		Ok(b) => {
			if b.starts_with(b"versatiles_v02") {
				"versatiles".into()
			} else if b.starts_with(b"PMTiles") {
				"pmtiles".into()
			} else if b.starts_with(b"SQLite format 3") {
				"mbtiles".into()
			} else if b.len() > 262 && &b[257..262] == b"ustar" {
				"tar".into()
			} else {
				"unknown".into()
			}
		}
	}
}

fn answer_write(rt: &Runtime, p: &Path, kind: &str) -> String {
	let p = p.to_path_buf();
	crate::c16::rm(&p);
	match kind {
		"dir" => std::fs::create_dir_all(&p).unwrap(),
		"file" => std::fs::write(&p, b"old content").unwrap(),
		_ => {}
	}
	let s = p.to_str().unwrap().to_string();
	let r = match catch(|| rt.block_on(write_to_filename(&mut source(), &s))) {
		Ok(Ok(())) => detect(&p),
		Ok(Err(_)) => "err".into(),
		Err(_) => "panic".into(),
	};
	crate::c16::rm(&p);
	r
}

pub fn answer(rt: &Runtime, root: &Path, line: &str, cache: &mut Option<(PathBuf, PathBuf)>) -> Option<String> {
	let t: Vec<&str> = line.split(' ').collect();
	if t.len() != 3 {
		return None;
	}
	let name = String::from_utf8(unhex(t[1])).ok()?;
	if name.is_empty() || name.starts_with("http://") || name.starts_with("https://") {
		return None;
	}
	let _ = cache;
	// replayed lines carry the absolute path of an earlier run: re-create it below the current scratch root
	let leaf = name.rsplit('/').next()?.to_string();
	if leaf.is_empty() || leaf == "." || leaf == ".." {
		return None;
	}
	let p = PathBuf::from(&name);
	let p = if p.is_absolute() && p.parent().map_or(false, |d| std::fs::create_dir_all(d).is_ok()) { p } else { root.join("work").join(&leaf) };
	std::fs::create_dir_all(p.parent()?).ok()?;
	match t[0] {
		"GTR" => {
			let tp = templates(rt, root);
			Some(answer_read(rt, &tp, &p, t[2]))
		}
		"GTW" => Some(answer_write(rt, &p, t[2])),
		_ => None,
	}
}

pub fn run(ctx: &mut Ctx, rng: &mut Rng, root: &Path) {
	std::fs::create_dir_all(root).unwrap();
	let tp = templates(&ctx.rt, root);
	let work = root.join("work");
	std::fs::create_dir_all(&work).unwrap();
	let stems = ["a", "data.v2", "x y", "tiles", ".hidden", "t.tar", "UP", "ä"];
	let exts = ["versatiles", "pmtiles", "mbtiles", "tar", "vpl", "VERSATILES", "Pmtiles", "xyz", "tar.gz", "versatiles.bak", "mbtiles?x=1", "pmtiles?a.b", "json", "", "versatile", "vpl2"];
	let mut names: Vec<String> = vec!["versatiles".into(), "pmtiles".into(), "noext".into(), "a.".into(), "a?b.tar".into(), "a.tar?b.versatiles".into()];
	for s in stems {
		for e in exts {
			if rng.chance(2, 3) {
				names.push(if e.is_empty() { s.to_string() } else { format!("{s}.{e}") });
			}
		}
	}
	for n in names {
		for kind in ["none", "file", "dir"] {
			let p = work.join(&n);
			let hx = hex(p.to_str().unwrap().as_bytes());
			let a = answer_read(&ctx.rt, &tp, &p, kind);
			ctx.out.count(&format!("getters_read_{}", if a == "err" { "err" } else { "ok" }));
			ctx.out.case(&format!("GTR {hx} {kind}"), &a, a != "err");
			// an unknown extension / missing path must be an error, never a panic
			ctx.out.oracle(a != "panic" && !a.contains('+'), "C01 getters read", serde_json::json!({"kind": "getters", "op": "read"}), serde_json::json!({"case": format!("GTR {hx} {kind}"), "answer": a}));
			let w = answer_write(&ctx.rt, &p, kind);
			ctx.out.count(&format!("getters_write_{}", if w == "err" { "err" } else { "ok" }));
			ctx.out.case(&format!("GTW {hx} {kind}"), &w, w != "err");
			ctx.out.oracle(w != "panic" && w != "unknown" && w != "nothing" && w != "empty-dir", "C01 getters write", serde_json::json!({"kind": "getters", "op": "write"}), serde_json::json!({"case": format!("GTW {hx} {kind}"), "answer": w}));
		}
	}
}
