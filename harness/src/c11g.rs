//! C11g – geometry command streams: `VectorTileFeature::to_geometry` / `from_geometry` against the Lean model
//! `VtModel.Geom` and against a reference written from MVT 2.1 §4.3.
//!  `C11g d <gtype> <hex>` real decode → `err` | `panic` | dump;  `C11g e <K> <body>` real encode → `<gtype> <hex>`
//! dump: `P x,y;…` | `L x,y;…/…` | `G ring/ring|ring/…`
use crate::common::*;
use crate::indep_mvt::*;
use serde_json::json;
use versatiles_core::types::Blob;
use versatiles_geometry::vector_tile::{VectorTile, VectorTileLayer};
use versatiles_geometry::{GeoFeature, Geometry};

type Pt = (i64, i64);
#[derive(Clone, Debug, PartialEq)]
pub enum G {
	P(Vec<Pt>),
	L(Vec<Vec<Pt>>),
	G(Vec<Vec<Vec<Pt>>>),
}

fn show_line(l: &[Pt]) -> String {
	if l.is_empty() {
		return "-".into();
	}
	l.iter().map(|p| format!("{},{}", p.0, p.1)).collect::<Vec<_>>().join(";")
}
pub fn dump(g: &G) -> String {
	match g {
		G::P(l) => format!("P {}", show_line(l)),
		G::L(ls) => format!("L {}", ls.iter().map(|l| show_line(l)).collect::<Vec<_>>().join("/")),
		G::G(ps) => format!("G {}", ps.iter().map(|p| p.iter().map(|r| show_line(r)).collect::<Vec<_>>().join("/")).collect::<Vec<_>>().join("|")),
	}
}
fn parse_line(s: &str) -> Vec<Pt> {
	if s.is_empty() || s == "-" {
		return vec![];
	}
	s.split(';')
		.map(|p| {
			let (a, b) = p.split_once(',').unwrap();
			(a.parse().unwrap(), b.parse().unwrap())
		})
		.collect()
}
fn parse(kind: &str, body: &str) -> G {
	match kind {
		"P" => G::P(parse_line(body)),
		"L" => G::L(body.split('/').map(parse_line).collect()),
		_ => G::G(body.split('|').map(|p| p.split('/').map(parse_line).collect()).collect()),
	}
}

// ------------------------------------------------------------ the real code

fn f(p: &Pt) -> [f64; 2] {
	[p.0 as f64, p.1 as f64]
}
fn i(p: &[f64; 2]) -> Pt {
	(p[0] as i64, p[1] as i64)
}

fn real_decode(gtype: u32, data: &[u8]) -> String {
	let tile = ITile { layers: vec![ILayer { name: b"g".to_vec(), features: vec![IFeature { id: None, tags: vec![], gtype: Some(gtype), geom: Some(data.to_vec()) }], keys: vec![], values: vec![], extent: None, version: None }] };
	let bytes = encode_tile(&tile, &PLAIN);
	let r = catch(|| -> Option<G> {
		let t = VectorTile::from_blob(&Blob::from(bytes)).ok()?;
		let g = t.layers[0].features[0].to_geometry().ok()?;
		Some(match g {
			Geometry::MultiPoint(m) => G::P(m.0.iter().map(i).collect()),
			Geometry::MultiLineString(m) => G::L(m.0.iter().map(|l| l.iter().map(i).collect()).collect()),
			Geometry::MultiPolygon(m) => G::G(m.0.iter().map(|p| p.iter().map(|r| r.iter().map(i).collect()).collect()).collect()),
			_ => return None,
		})
	});
	match r {
		Ok(Some(g)) => dump(&g),
		Ok(None) => "err".into(),
		Err(_) => "panic".into(),
	}
}

fn real_encode(g: &G) -> String {
	let geometry = match g {
		G::P(l) => Geometry::new_multi_point(l.iter().map(f).collect::<Vec<_>>()),
		G::L(ls) => Geometry::new_multi_line_string(ls.iter().map(|l| l.iter().map(f).collect::<Vec<_>>()).collect::<Vec<_>>()),
		G::G(ps) => Geometry::new_multi_polygon(ps.iter().map(|p| p.iter().map(|r| r.iter().map(f).collect::<Vec<_>>()).collect::<Vec<_>>()).collect::<Vec<_>>()),
	};
	let r = catch(|| -> Option<(u64, Vec<u8>)> {
		let l = VectorTileLayer::from_features("g".to_string(), vec![GeoFeature::new(geometry)], 4096, 1).ok()?;
		Some((l.features[0].geom_type.as_u64(), l.features[0].geom_data.as_slice().to_vec()))
	});
	match r {
		Ok(Some((t, b))) => format!("{t} {}", hex(&b)),
		Ok(None) => "err".into(),
		Err(_) => "panic".into(),
	}
}

// ------------------------------------------------------------ reference encoder (MVT 2.1 §4.3)

fn ref_encode(g: &G) -> (u32, Vec<u8>) {
	let mut o = vec![];
	let mut cur = (0i64, 0i64);
	let mut pt = |o: &mut Vec<u8>, p: &Pt| {
		put_varint(o, zigzag(p.0 - cur.0));
		put_varint(o, zigzag(p.1 - cur.1));
		cur = *p;
	};
	match g {
		G::P(l) => {
			put_varint(&mut o, ((l.len() as u64) << 3) | 1);
			for p in l {
				pt(&mut o, p);
			}
			(1, o)
		}
		G::L(ls) => {
			for l in ls {
				put_varint(&mut o, 9);
				pt(&mut o, &l[0]);
				put_varint(&mut o, (((l.len() - 1) as u64) << 3) | 2);
				for p in &l[1..] {
					pt(&mut o, p);
				}
			}
			(2, o)
		}
		G::G(ps) => {
			for r in ps.iter().flatten() {
				put_varint(&mut o, 9);
				pt(&mut o, &r[0]);
				put_varint(&mut o, (((r.len() - 2) as u64) << 3) | 2);
				for p in &r[1..r.len() - 1] {
					pt(&mut o, p);
				}
				put_varint(&mut o, 15);
			}
			(3, o)
		}
	}
}

fn emit_d(out: &mut Out, gtype: u32, data: &[u8], nontrivial: bool) -> String {
	let a = real_decode(gtype, data);
	let line = format!("C11g d {gtype} {}", hex(data));
	out.case(&line, &a, nontrivial);
	a
}
fn emit_e(out: &mut Out, g: &G) -> String {
	let a = real_encode(g);
	let d = dump(g);
	let (k, body) = d.split_once(' ').unwrap();
	out.case(&format!("C11g e {k} {body}"), &a, true);
	a
}

// ------------------------------------------------------------ generators

const COORD: &[i64] = &[0, 1, -1, 2, 63, 64, -64, -65, 4095, 4096, 8191, -4096, 100000, -100000, (1 << 24) - 1, -(1 << 24), i32::MAX as i64, i32::MIN as i64, 1 << 20];

fn gen_pt(rng: &mut Rng, small: bool) -> Pt {
	if small {
		(rng.below(64) as i64 - 32, rng.below(64) as i64 - 32)
	} else {
		(*rng.pick(COORD), *rng.pick(COORD))
	}
}
/// a closed ring with the wanted orientation (area sign as `area_ring` computes it), coordinates small enough to be exact
fn gen_ring(rng: &mut Rng, positive: bool) -> Vec<Pt> {
	loop {
		let n = rng.range(3, 6) as usize;
		let mut r: Vec<Pt> = (0..n).map(|_| (rng.below(2000) as i64 - 1000, rng.below(2000) as i64 - 1000)).collect();
		r.push(r[0]);
		let mut a: i128 = 0;
		let mut p2 = *r.last().unwrap();
		for p1 in &r {
			a += ((p2.0 - p1.0) as i128) * ((p1.1 + p2.1) as i128);
			p2 = *p1;
		}
		if a == 0 {
			continue;
		}
		if (a > 0) != positive {
			r.reverse();
		}
		return r;
	}
}
fn gen_geom(rng: &mut Rng) -> G {
	let small = rng.chance(1, 2);
	match rng.below(3) {
		0 => G::P((0..rng.range(1, 5)).map(|_| gen_pt(rng, small)).collect()),
		1 => G::L((0..rng.range(1, 3)).map(|_| (0..rng.range(2, 5)).map(|_| gen_pt(rng, small)).collect()).collect()),
		_ => G::G((0..rng.range(1, 3)).map(|_| {
			let mut p = vec![gen_ring(rng, true)];
			for _ in 0..rng.below(3) {
				p.push(gen_ring(rng, false));
			}
			p
		}).collect()),
	}
}

pub fn run_geom(out: &mut Out, args: &Args, rng: &mut Rng) {
	// 1. well-formed geometries: real encode = reference encode, real decode of both = the geometry
	for _ in 0..args.n(600, 20000) {
		let g = gen_geom(rng);
		let (t, want) = ref_encode(&g);
		let enc = emit_e(out, &g);
		let wanted = format!("{t} {}", hex(&want));
		// classify a difference: the only known one is ClosePath written as command integer 7 (count 0) instead of 15 (count 1)
		let legacy = {
			let mut w = want.clone();
			if let G::G(ps) = &g {
				// positions of the ClosePath integers in the reference encoding: re-encode with 7
				let mut o = vec![];
				let mut cur = (0i64, 0i64);
				for r in ps.iter().flatten() {
					put_varint(&mut o, 9);
					for (k, p) in r[..r.len() - 1].iter().enumerate() {
						if k == 1 {
							put_varint(&mut o, (((r.len() - 2) as u64) << 3) | 2);
						}
						put_varint(&mut o, zigzag(p.0 - cur.0));
						put_varint(&mut o, zigzag(p.1 - cur.1));
						cur = *p;
					}
					put_varint(&mut o, 7);
				}
				w = o;
			}
			format!("{t} {}", hex(&w))
		};
		let diff = if enc == wanted { "none" } else if enc == legacy { "closepath_count_0" } else { "other" };
		out.oracle(enc == wanted, &format!("C11 geometry: from_geometry writes {enc}, the specification says {wanted} for {}", dump(&g)), json!({"kind": "geom_encode", "diff": diff}), json!({"case": format!("C11g e {}", dump(&g))}));
		let dec = emit_d(out, t, &want, true);
		out.oracle(dec == dump(&g), &format!("C11 geometry: to_geometry reads {dec} from the encoding of {}", dump(&g)), json!({"kind": "geom_roundtrip"}), json!({"case": format!("C11g d {t} {}", hex(&want))}));
		out.count(match g {
			G::P(_) => "geom_points",
			G::L(_) => "geom_lines",
			G::G(_) => "geom_polygons",
		});
	}
	// 2. every delta at the i32 borders, and cursor sums at the i64 border (unchecked `x += dx` in the decoder)
	let big: &[i64] = &[i32::MAX as i64, i32::MIN as i64, i64::MAX, i64::MIN, i64::MAX - 1, 1 << 62, -(1 << 62), (1 << 53) + 1];
	for &a in big {
		for &b in big {
			let mut d = vec![];
			put_varint(&mut d, (2 << 3) | 1);
			for v in [a, 0, b, 0] {
				put_varint(&mut d, zigzag(v));
			}
			let sum = a as i128 + b as i128;
			let fits = sum >= i64::MIN as i128 && sum <= i64::MAX as i128;
			// coordinates beyond 2^53 are not exact in the f64 the decoder returns: such cases are judged for panics only
			let exact = |v: i128| v.unsigned_abs() <= 1 << 53;
			let ans = if !fits || (exact(a as i128) && exact(sum)) {
				emit_d(out, 1, &d, true)
			} else {
				out.eval(&format!("C11g d 1 {}", hex(&d)), true);
				real_decode(1, &d)
			};
			out.oracle(ans != "panic", &format!("C11 geometry: to_geometry panics on deltas {a}, {b} (cursor {})", if fits { "in range" } else { "overflows i64" }), json!({"kind": "geom_decode_panic", "cursor_overflow": !fits}), json!({"case": format!("C11g d 1 {}", hex(&d))}));
		}
	}
	// 3. malformed command streams: count 0, count too large, unknown command, truncated, random bytes, ClosePath first, unknown type
	let base = ref_encode(&G::L(vec![vec![(1, 2), (3, 4), (5, 6)]])).1;
	let mut streams: Vec<(u32, Vec<u8>)> = vec![(1, vec![]), (2, vec![]), (3, vec![]), (0, base.clone()), (4, base.clone()), (1, vec![9]), (1, vec![1]), (1, vec![2]), (2, vec![15]), (3, vec![15]), (1, vec![0]), (1, vec![3, 0, 0]), (1, vec![4]), (1, vec![5]), (1, vec![6])];
	for cut in 0..=base.len() {
		streams.push((2, base[..cut].to_vec()));
	}
	for count in [0u64, 1, 2, 3, 1 << 20, (1 << 61) - 1] {
		for cmd in [1u64, 2, 7, 0, 3] {
			let mut d = vec![];
			put_varint(&mut d, (count << 3) | cmd);
			d.extend_from_slice(&[2, 4, 6, 8]);
			streams.push((rng.range(1, 3) as u32, d));
		}
	}
	for _ in 0..args.n(400, 10000) {
		let n = rng.range(1, 12) as usize;
		streams.push((rng.range(0, 4) as u32, rng.bytes(n).iter().map(|b| b & 0x3f).collect()));
		// a valid stream with one byte changed, or read under another geometry type
		let g = gen_geom(rng);
		let (t, mut d) = ref_encode(&g);
		if rng.chance(1, 2) && !d.is_empty() {
			let at = rng.below(d.len() as u64) as usize;
			d[at] = rng.next() as u8 & 0x7f;
			streams.push((t, d));
		} else {
			streams.push((rng.range(1, 3) as u32, d));
		}
	}
	for (t, d) in streams {
		let ans = emit_d(out, t, &d, false);
		out.oracle(ans != "panic", &format!("C11 geometry: to_geometry panics on a malformed command stream (type {t}, {})", hex(&d)), json!({"kind": "geom_decode_panic", "cursor_overflow": false}), json!({"case": format!("C11g d {t} {}", hex(&d))}));
		out.count("geom_malformed_streams");
	}
	// 4. encoder edge cases: empty lines, short rings, coordinates whose deltas leave i64
	for g in [G::P(vec![]), G::L(vec![vec![]]), G::L(vec![vec![(1, 1)]]), G::L(vec![vec![], vec![(0, 0), (1, 1)]]), G::G(vec![vec![vec![(0, 0), (1, 1), (0, 0)]]]), G::G(vec![vec![vec![]]]), G::P(vec![(i64::MAX, 0), (i64::MIN, 0)]), G::P(vec![(i64::MIN, i64::MIN)])] {
		let a = emit_e(out, &g);
		out.oracle(a != "panic" || matches!(&g, G::P(l) if l.iter().any(|p| p.0.unsigned_abs() > 1 << 62)), &format!("C11 geometry: from_geometry panics on {}", dump(&g)), json!({"kind": "geom_encode_panic"}), json!({"case": format!("C11g e {}", dump(&g))}));
	}
}

pub fn replay(out: &mut Out, t: &[&str]) {
	if t.len() == 4 && t[1] == "d" {
		let data = unhex(t[3]);
		let a = real_decode(t[2].parse().unwrap(), &data);
		out.case(&t.join(" "), &a, true);
		out.oracle(a != "panic", "C11 geometry: to_geometry panics", json!({"kind": "geom_decode_panic"}), json!({"case": t.join(" ")}));
	} else if t.len() == 4 && t[1] == "e" {
		let a = real_encode(&parse(t[2], t[3]));
		out.case(&t.join(" "), &a, true);
	}
}
