//! Boundary-seeking tile sets for the size thresholds of the container writers (shared: C01, C17 may use it).
//!
//! `pmtiles_root_boundary_set(delta)` finds a tile set whose gzip-compressed single-level PMTiles root directory is
//! exactly `16257 + delta` bytes long (16257 = 16384 − 127: the root directory is written at offset 127, the metadata at
//! 16384).  The search does not write containers: it builds the directory with the REAL `EntriesV3::as_directory`
//! (verif_hooks) from the entries the writer would collect for the set (one zoom-7 level = one 256-block, tiles streamed
//! row-major, offsets accumulating in stream order, ids from the real `get_tile_id`) – a few milliseconds per probe –
//! by bisection over the tile count and a linear scan over the last tiles' sizes.
use std::collections::BTreeMap;
use versatiles_container::verif_hooks::pmtiles::{EntriesV3, EntryV3, TileId};
use versatiles_core::types::*;

pub type Coord = (u8, u32, u32);
pub type TileMap = BTreeMap<Coord, Vec<u8>>;

/// byte budget of the PMTiles root directory
pub const PM_ROOT_BUDGET: i64 = 16384 - 127;
const Z: u8 = 7;
const W: u32 = 100;

fn mix(mut z: u64) -> u64 {
	z = (z ^ (z >> 30)).wrapping_mul(0xBF58_476D_1CE4_E5B9);
	z = (z ^ (z >> 27)).wrapping_mul(0x94D0_49BB_1331_11EB);
	z ^ (z >> 31)
}

/// payload length of the i-th streamed tile (1..=6 bytes, irregular), `tweak` overrides the last tiles
fn len_of(i: usize, n: usize, seed: u64, tweak: &[u8]) -> usize {
	let from_end = n - 1 - i;
	if from_end < tweak.len() {
		return tweak[from_end] as usize;
	}
	(mix(seed ^ (i as u64).wrapping_mul(0x9E37_79B9_7F4A_7C15)) % 6 + 1) as usize
}

/// the set: `n` tiles in row-major order in a `W`-wide box at zoom 7
pub fn make_set(n: usize, seed: u64, tweak: &[u8]) -> TileMap {
	let mut m = TileMap::new();
	for i in 0..n {
		let (x, y) = (i as u32 % W, i as u32 / W);
		let l = len_of(i, n, seed, tweak);
		m.insert((Z, x, y), (0..l).map(|k| (mix(seed ^ ((i * 8 + k) as u64)) & 0xff) as u8).collect());
	}
	m
}

/// length of the compressed single-level root directory the PMTiles writer would produce for `make_set(n, seed, tweak)`
pub fn root_len(n: usize, seed: u64, tweak: &[u8]) -> i64 {
	let mut es = EntriesV3::new();
	let mut off = 0u64;
	// stream order of the writer for one block: row-major (y outer, x inner) = index order here
	for i in 0..n {
		let (x, y) = (i as u32 % W, i as u32 / W);
		let l = len_of(i, n, seed, tweak) as u64;
		let id = TileCoord3::new(x, y, Z).unwrap().get_tile_id().unwrap();
		es.push(EntryV3::new(id, ByteRange::new(off, l), 1));
		off += l;
	}
	// a huge target: never split into leaves; entries < 16384 keeps `as_directory` on the single-level path
	es.as_directory(u64::MAX, &TileCompression::Gzip).map(|d| d.root_bytes.len() as i64).unwrap_or(-1)
}

/// tile set whose compressed root directory has length `PM_ROOT_BUDGET + delta` (exactly), if the search finds one
pub fn pmtiles_root_boundary_set(delta: i64, seed: u64) -> Option<(TileMap, i64)> {
	let target = PM_ROOT_BUDGET + delta;
	// bisection over the tile count: largest n with root_len(n) <= target
	let (mut lo, mut hi) = (1000usize, 12000usize);
	if root_len(lo, seed, &[]) > target || root_len(hi, seed, &[]) <= target {
		return None;
	}
	while hi - lo > 1 {
		let mid = (lo + hi) / 2;
		if root_len(mid, seed, &[]) <= target {
			lo = mid;
		} else {
			hi = mid;
		}
	}
	// linear scan: counts around the crossing × sizes of the last two tiles
	let mut best: Option<(usize, Vec<u8>, i64)> = None;
	for n in lo.saturating_sub(6)..=lo + 6 {
		for a in 1u8..=12 {
			for b in [1u8, 3, 7, 20, 130, 200] {
				let tw = [a, b];
				let l = root_len(n, seed, &tw);
				if l == target {
					return Some((make_set(n, seed, &tw), l));
				}
				if best.as_ref().map_or(true, |x| (x.2 - target).abs() > (l - target).abs()) {
					best = Some((n, tw.to_vec(), l));
				}
			}
		}
	}
	// nearest miss (only useful to the caller if it is on the same side of the thresholds)
	best.map(|(n, tw, l)| (make_set(n, seed, &tw), l))
}

/// the boundary sets for a tier: (delta actually reached, tiles)
pub fn pmtiles_root_boundary_sets(thorough: bool) -> Vec<(i64, TileMap)> {
	let deltas: Vec<i64> = if thorough { vec![-2, -1, 0, 1, 2, 64, 126, 127, 128, 129] } else { vec![0, 1, 127, 128] };
	let mut out = vec![];
	for (k, d) in deltas.iter().enumerate() {
		if let Some((set, l)) = pmtiles_root_boundary_set(*d, 7 + k as u64) {
			out.push((l - PM_ROOT_BUDGET, set));
		}
	}
	out
}
