//! C04 – recompression changes only the encoding, never the payload.
//!
//! Streams sent to the Lean model (`VtModel/Codec.lean`):
//!   `C04 steps <src> <dst> <force>`                    real `TileConverter::new_tile_recompressor(..).as_string()`
//!   `C04 conv <src> <keep|raw|gzip|brotli> <force>`    real `TilesConvertReader::new_from_reader` (declared compression + pipeline)
//!   `C04 proc <src> <dst> <force> <enc|nil|cut> <hex>` real `process_blob` on a valid / empty / truncated blob
//!   `C04 rec <src> <dst> <enc|nil|cut> <hex>`          real `utils::recompress`
//!   `C04 e2e <fmt> <tileformat> <src> <target> <force>` real `convert_tiles_container` + `get_reader` of the output
//! Direct oracle (independent of the model, decoders = flate2 / brotli crates called directly):
//!   decoded output tile = decoded source tile (lookup path, stream path, converter lookup path),
//!   declared compression = applied compression, metadata preserved; codec laws on the real crates.
use crate::common::*;
use anyhow::Result;
use async_trait::async_trait;
use serde_json::{json, Value};
use std::collections::BTreeMap;
use std::io::{Read, Write};
use std::path::Path;
use versatiles_container::{
	convert_tiles_container, get_reader, tile_converter::TileConverter, TilesConvertReader, TilesConverterParameters,
	MOCK_BYTES_PBF, MOCK_BYTES_PNG,
};
use versatiles_core::{
	tilejson::TileJSON,
	types::{
		Blob, TileBBoxPyramid, TileCompression, TileCoord3, TileFormat, TilesReaderParameters, TilesReaderTrait,
	},
	utils::{compress, decompress, recompress},
};

pub const COMPS: [TileCompression; 3] = [TileCompression::Uncompressed, TileCompression::Gzip, TileCompression::Brotli];

pub fn cname(c: TileCompression) -> &'static str {
	match c {
		TileCompression::Uncompressed => "raw",
		TileCompression::Gzip => "gzip",
		TileCompression::Brotli => "brotli",
	}
}
pub fn parse_comp(s: &str) -> Option<TileCompression> {
	match s {
		"raw" => Some(TileCompression::Uncompressed),
		"gzip" => Some(TileCompression::Gzip),
		"brotli" => Some(TileCompression::Brotli),
		_ => None,
	}
}

// ---------------------------------------------------------------------------------------------
// independent codecs (flate2 / brotli crates called directly, not through versatiles_core)
// ---------------------------------------------------------------------------------------------
pub fn gz_enc(data: &[u8], level: u32) -> Vec<u8> {
	let mut e = flate2::write::GzEncoder::new(Vec::new(), flate2::Compression::new(level));
	e.write_all(data).unwrap();
	e.finish().unwrap()
}
pub fn gz_dec(data: &[u8]) -> Option<Vec<u8>> {
	let mut d = flate2::read::GzDecoder::new(data);
	let mut out = Vec::new();
	match d.read_to_end(&mut out) {
		Ok(_) => Some(out),
		Err(_) => None,
	}
}
pub fn br_enc(data: &[u8], quality: u32, lgwin: u32) -> Vec<u8> {
	let mut out = Vec::new();
	{
		let mut w = brotli::CompressorWriter::new(&mut out, 4096, quality, lgwin);
		w.write_all(data).unwrap();
		w.flush().unwrap();
	}
	out
}
pub fn br_dec(data: &[u8]) -> Option<Vec<u8>> {
	let mut d = brotli::Decompressor::new(data, 4096);
	let mut out = Vec::new();
	match d.read_to_end(&mut out) {
		Ok(_) => Some(out),
		Err(_) => None,
	}
}
/// decode with EXACTLY the given compression
pub fn indep_dec(c: TileCompression, data: &[u8]) -> Option<Vec<u8>> {
	match c {
		TileCompression::Uncompressed => Some(data.to_vec()),
		TileCompression::Gzip => gz_dec(data),
		TileCompression::Brotli => br_dec(data),
	}
}
/// encode as a foreign producer would (not the parameters versatiles uses)
pub fn indep_enc(c: TileCompression, data: &[u8]) -> Vec<u8> {
	match c {
		TileCompression::Uncompressed => data.to_vec(),
		TileCompression::Gzip => gz_enc(data, 6),
		TileCompression::Brotli => br_enc(data, 5, 22),
	}
}

// ---------------------------------------------------------------------------------------------
// an in-memory tile source with arbitrary payloads
// ---------------------------------------------------------------------------------------------
#[derive(Debug)]
pub struct MemReader {
	pub params: TilesReaderParameters,
	pub tilejson: TileJSON,
	pub tiles: BTreeMap<(u8, u32, u32), Vec<u8>>,
}
impl MemReader {
	pub fn new(format: TileFormat, comp: TileCompression, tilejson: TileJSON, tiles: &[((u8, u32, u32), Vec<u8>)]) -> MemReader {
		let mut pyramid = TileBBoxPyramid::new_empty();
		for ((z, x, y), _) in tiles {
			pyramid.include_coord(&TileCoord3::new(*x, *y, *z).unwrap());
		}
		MemReader { params: TilesReaderParameters::new(format, comp, pyramid), tilejson, tiles: tiles.iter().cloned().collect() }
	}
}
#[async_trait]
impl TilesReaderTrait for MemReader {
	fn get_source_name(&self) -> &str {
		"mem"
	}
	fn get_container_name(&self) -> &str {
		"mem"
	}
	fn get_parameters(&self) -> &TilesReaderParameters {
		&self.params
	}
	fn override_compression(&mut self, c: TileCompression) {
		self.params.tile_compression = c;
	}
	fn get_tilejson(&self) -> &TileJSON {
		&self.tilejson
	}
	async fn get_tile_data(&self, coord: &TileCoord3) -> Result<Option<Blob>> {
		Ok(self.tiles.get(&(coord.z, coord.x, coord.y)).map(|v| Blob::from(v.clone())))
	}
	/// the stored tiles inside the box (the trait default would visit every coordinate of the box, which never ends
	/// for sparse tiles at zoom 31)
	async fn get_bbox_tile_stream(&self, bbox: versatiles_core::types::TileBBox) -> versatiles_core::types::TileStream {
		let v: Vec<(TileCoord3, Blob)> = self
			.tiles
			.iter()
			.filter(|((z, x, y), _)| *z == bbox.level && bbox.contains3(&TileCoord3::new(*x, *y, *z).unwrap()))
			.map(|((z, x, y), b)| (TileCoord3::new(*x, *y, *z).unwrap(), Blob::from(b.clone())))
			.collect();
		// row-major like `TileBBox::iter_coords` (the order of the trait default and of the real readers)
		let mut v = v;
		v.sort_by_key(|(c, _)| (c.y, c.x));
		versatiles_core::types::TileStream::from_vec(v)
	}
}

pub fn runtime() -> tokio::runtime::Runtime {
	tokio::runtime::Builder::new_multi_thread().worker_threads(4).enable_all().build().unwrap()
}

// ---------------------------------------------------------------------------------------------
// payload classes
// ---------------------------------------------------------------------------------------------
/// Payloads that LOOK like compressed data: a decoded tile may itself be a gzip/brotli file, start with the gzip
/// magic, or equal the compressed form of another payload.  A recompressor must treat them as opaque bytes
/// (no "already compressed, skip" shortcuts) – seeded regression C04-1.
pub fn adversarial_payloads() -> Vec<(&'static str, Vec<u8>)> {
	let inner: Vec<u8> = b"inner payload of a tile that is itself a compressed file 0123456789 0123456789 0123456789".to_vec();
	let other: Vec<u8> = (0..300u32).map(|i| (i * 7 % 251) as u8).collect();
	let mut gz_magic_garbage = vec![0x1f, 0x8b, 0x08];
	gz_magic_garbage.extend((0..40u8).map(|i| i.wrapping_mul(37) ^ 0x5a));
	let mut br_like_garbage = vec![0x1b, 0x57, 0x00, 0xf8]; // a plausible brotli stream header, then garbage
	br_like_garbage.extend((0..40u8).map(|i| i.wrapping_mul(91) ^ 0xa5));
	vec![
		("is_gzip_stream", gz_enc(&inner, 6)),
		("is_gzip_stream_best", compress(Blob::from(inner.clone()), &TileCompression::Gzip).unwrap().into_vec()), // exactly what the pipeline itself would produce
		("is_brotli_stream", br_enc(&inner, 5, 22)),
		("is_brotli_stream_best", compress(Blob::from(other.clone()), &TileCompression::Brotli).unwrap().into_vec()),
		("gzip_magic_then_garbage", gz_magic_garbage),
		("gzip_magic_only", vec![0x1f, 0x8b, 0x08]),
		("brotli_like_then_garbage", br_like_garbage),
		("gzip_of_gzip", gz_enc(&gz_enc(&other, 9), 6)),
		("empty_gzip_stream", gz_enc(&[], 6)),
		("empty_brotli_stream", br_enc(&[], 5, 22)),
	]
}

pub struct Payloads {
	pub list: Vec<(&'static str, (u8, u32, u32), Vec<u8>)>,
}
pub fn payload_classes(seed: u64, format: TileFormat) -> Payloads {
	let mut rng = Rng::new(seed ^ 0xC04);
	let incompressible = rng.bytes(70 * 1024);
	let mut compressible = Vec::with_capacity(200 * 1024);
	while compressible.len() < 200 * 1024 {
		compressible.extend_from_slice(b"versatiles-verif highly compressible payload 0123456789 ");
	}
	compressible.truncate(200 * 1024);
	let small: Vec<u8> = if format == TileFormat::PNG { MOCK_BYTES_PNG.to_vec() } else { MOCK_BYTES_PBF.to_vec() };
	let adv = adversarial_payloads();
	let adv_coords: [(u8, u32, u32); 10] = [(3, 0, 0), (3, 1, 0), (3, 2, 0), (3, 3, 0), (3, 4, 0), (3, 0, 1), (3, 1, 1), (3, 2, 1), (3, 3, 1), (3, 4, 1)];
	let mut list: Vec<(&'static str, (u8, u32, u32), Vec<u8>)> = adv.into_iter().zip(adv_coords).map(|((n, p), c)| (n, c, p)).collect();
	let mut base: Vec<(&'static str, (u8, u32, u32), Vec<u8>)> = vec![
			("one_byte", (2, 1, 1), vec![0x42]),
			("empty", (2, 2, 2), vec![]), // a zero-length payload (e.g. a vector tile without layers)
			("incompressible_70k", (2, 2, 1), incompressible),
			("compressible_200k", (2, 1, 2), compressible),
			("small_tile", (3, 5, 5), small.clone()),
			("small_tile_dup", (3, 6, 5), small), // same bytes again: de-duplication path of the versatiles writer
			("one_byte_far", (9, 300, 301), vec![0x42]), // second block of a level
			("zeros_999", (9, 301, 300), vec![0u8; 999]),
			("zeros_1000", (9, 300, 300), vec![0u8; 1000]), // around the <1000 byte de-dup threshold
			("ones_999_dup", (9, 301, 302), vec![1u8; 999]),
			("ones_999_dup2", (9, 302, 302), vec![1u8; 999]),
			("ones_1000_dup", (9, 303, 302), vec![1u8; 1000]),
			("ones_1000_dup2", (9, 304, 302), vec![1u8; 1000]),
			// identical small payloads on both sides of a 256-block border of ONE level (x = 254 | 257 at zoom 9): the
			// de-duplication of the versatiles writer stores block-relative ranges and must not leak across blocks
			// (seeded regression C04-5); the padding tiles make the relative offsets of the two blocks differ
			("border_pad_block0", (9, 250, 300), (0..700u32).map(|i| (i * 13 % 251) as u8).collect()),
			("border_dup_block0", (9, 254, 300), b"same small payload on both sides of the block border".to_vec()),
			("border_dup_block1", (9, 257, 300), b"same small payload on both sides of the block border".to_vec()),
			("border_other_block1", (9, 258, 300), (0..300u32).map(|i| (i * 29 % 241) as u8).collect()),
			("border_dup_block1_again", (9, 259, 301), b"same small payload on both sides of the block border".to_vec()),
			("border_dup_row_block", (9, 254, 301), vec![0x42]), // equals `one_byte_far` (9,300,301) in the next block
	];
	base.append(&mut list);
	Payloads { list: base }
}

const META_KEYS: [&str; 6] = ["name", "description", "author", "license", "version", "attribution"];
fn source_tilejson(vector: bool) -> TileJSON {
	let mut s = String::from(
		"{\"tilejson\":\"3.0.0\",\"name\":\"verif \\u00e4 name\",\"description\":\"d \\\"quoted\\\" \\\\ text\",\"author\":\"a\",\"license\":\"CC0\",\"version\":\"1.2.3\",\"attribution\":\"(c) somebody\"",
	);
	if vector {
		s.push_str(",\"vector_layers\":[{\"id\":\"layer_a\",\"fields\":{\"k\":\"String\"},\"minzoom\":0,\"maxzoom\":9}]");
	}
	s.push('}');
	TileJSON::try_from(s.as_str()).unwrap()
}

// ---------------------------------------------------------------------------------------------
// model-compared cases
// ---------------------------------------------------------------------------------------------
fn steps_case(out: &mut Out, s: TileCompression, d: TileCompression, f: bool) {
	let line = format!("C04 steps {} {} {}", cname(s), cname(d), f as u8);
	let r = catch(|| TileConverter::new_tile_recompressor(&s, &d, f).map(|c| (c.as_string(), c.is_empty())));
	let ans = match r {
		Ok(Ok((st, empty))) => {
			// oracle: the pipeline is empty only when nothing has to change
			let may_be_empty = (!f && s == d) || (s == TileCompression::Uncompressed && d == TileCompression::Uncompressed);
			out.oracle(
				empty == st.is_empty() && (!empty || may_be_empty) && (empty || !((!f) && s == d)),
				"C04 steps emptiness",
				json!({"kind":"steps_empty","src":cname(s),"dst":cname(d),"force":f}),
				json!({"case": line, "steps": st}),
			);
			format!("steps={}", if st.is_empty() { "-".to_string() } else { st })
		}
		Ok(Err(_)) => "err".into(),
		Err(_) => "panic".into(),
	};
	out.case(&line, &ans, f || s != d);
	out.count("steps_cases");
}

fn conv_case(out: &mut Out, s: TileCompression, t: Option<TileCompression>, f: bool) {
	let line = format!("C04 conv {} {} {}", cname(s), t.map_or("keep", cname), f as u8);
	let r = catch(|| {
		let reader = MemReader::new(TileFormat::PBF, s, source_tilejson(true), &[((0, 0, 0), vec![1])]);
		let cp = TilesConverterParameters::new(t, None, f, false, false);
		TilesConvertReader::new_from_reader(reader.boxed(), cp).map(|r| {
			let dbg = format!("{r:?}");
			(r.get_parameters().tile_compression, dbg)
		})
	});
	let ans = match r {
		Ok(Ok((declared, dbg))) => {
			// `tile_recompressor: Some(UnGzip, Brotli)` – Debug of TileConverter joins the step names with ", "
			let steps = dbg
				.split("tile_recompressor: Some(")
				.nth(1)
				.and_then(|r| r.split(')').next())
				.map(|x| x.replace(", ", ",").to_lowercase())
				.unwrap_or_else(|| "?".into());
			out.oracle(
				declared == t.unwrap_or(s),
				"C04 conv declared",
				json!({"kind":"conv_declared","src":cname(s),"target":t.map_or("keep", cname),"force":f}),
				json!({"case": line, "declared": cname(declared)}),
			);
			format!("declared={} steps={}", cname(declared), if steps.is_empty() { "-".to_string() } else { steps })
		}
		Ok(Err(_)) => "err".into(),
		Err(_) => "panic".into(),
	};
	out.case(&line, &ans, f || t.is_some_and(|t| t != s));
	out.count("conv_cases");
}

fn mk_blob(kind: &str, c: TileCompression, payload: &[u8]) -> Vec<u8> {
	let enc = compress(Blob::from(payload.to_vec()), &c).unwrap().into_vec();
	match kind {
		"enc" => enc,
		"nil" => vec![],
		"cut" => enc[..enc.len().saturating_sub(1)].to_vec(),
		_ => panic!("bad kind"),
	}
}
fn show_opt(v: &Option<Vec<u8>>) -> String {
	v.as_ref().map_or("err".into(), |b| hex(b))
}

fn proc_case(out: &mut Out, s: TileCompression, d: TileCompression, f: bool, kind: &str, payload: &[u8]) {
	let line = format!("C04 proc {} {} {} {} {}", cname(s), cname(d), f as u8, kind, hex(payload));
	let blob = mk_blob(kind, s, payload);
	let inp = decompress(Blob::from(blob.clone()), &s).ok().map(|b| b.into_vec());
	let r = catch(|| {
		let conv = TileConverter::new_tile_recompressor(&s, &d, f).unwrap();
		let first = conv.process_blob(Blob::from(blob.clone())).ok().map(|b| b.into_vec());
		// the same converter object used a second time must give the same answer (no state)
		let second = conv.clone().process_blob(Blob::from(blob.clone())).ok().map(|b| b.into_vec());
		let third = conv.process_blob(Blob::from(blob.clone())).ok().map(|b| b.into_vec());
		assert!(first == second && first == third, "TileConverter is not stateless");
		first
	});
	let ans = match &r {
		Ok(Some(b2)) => {
			let o = decompress(Blob::from(b2.clone()), &d).ok().map(|b| b.into_vec());
			format!("in={} r=ok out={}", show_opt(&inp), show_opt(&o))
		}
		Ok(None) => format!("in={} r=err out=none", show_opt(&inp)),
		Err(_) => "panic".into(),
	};
	// direct oracle with the independent decoders: a valid input must come out with the same payload
	let indep_in = indep_dec(s, &blob);
	let ok = match (&indep_in, &r) {
		(Some(p), Ok(Some(b2))) => indep_dec(d, b2).as_ref() == Some(p),
		(Some(_), _) => false,
		(None, Ok(Some(b2))) => indep_dec(d, b2).is_none(), // invalid in → must not decode to something
		(None, Ok(None)) => true,
		(None, Err(_)) => false,
	};
	out.oracle(
		ok,
		"C04 proc payload",
		json!({"kind":"proc","src":cname(s),"dst":cname(d),"force":f,"blob":kind}),
		json!({"case": line}),
	);
	out.case(&line, &ans, f || s != d);
	out.count(&format!("proc_{kind}"));
}

fn rec_case(out: &mut Out, s: TileCompression, d: TileCompression, kind: &str, payload: &[u8]) {
	let line = format!("C04 rec {} {} {} {}", cname(s), cname(d), kind, hex(payload));
	let blob = mk_blob(kind, s, payload);
	let inp = decompress(Blob::from(blob.clone()), &s).ok().map(|b| b.into_vec());
	let r = catch(|| recompress(Blob::from(blob.clone()), &s, &d).ok().map(|b| b.into_vec()));
	let ans = match &r {
		Ok(Some(b2)) => {
			let o = decompress(Blob::from(b2.clone()), &d).ok().map(|b| b.into_vec());
			format!("in={} r=ok out={}", show_opt(&inp), show_opt(&o))
		}
		Ok(None) => format!("in={} r=err out=none", show_opt(&inp)),
		Err(_) => "panic".into(),
	};
	let indep_in = indep_dec(s, &blob);
	let ok = match (&indep_in, &r) {
		(Some(p), Ok(Some(b2))) => indep_dec(d, b2).as_ref() == Some(p),
		(Some(_), _) => false,
		(None, Ok(Some(b2))) => indep_dec(d, b2).is_none(),
		(None, Ok(None)) => true,
		(None, Err(_)) => false,
	};
	out.oracle(ok, "C04 rec payload", json!({"kind":"rec","src":cname(s),"dst":cname(d),"blob":kind}), json!({"case": line}));
	out.case(&line, &ans, s != d);
	out.count(&format!("rec_{kind}"));
}

// ---------------------------------------------------------------------------------------------
// end-to-end conversion
// ---------------------------------------------------------------------------------------------
const FMTS: [&str; 5] = ["versatiles", "pmtiles", "tar", "directory", "mbtiles"];

fn tile_format_of(tf: &str) -> TileFormat {
	match tf {
		"pbf" => TileFormat::PBF,
		"png" => TileFormat::PNG,
		_ => panic!("tile format {tf}"),
	}
}

fn e2e_case(out: &mut Out, args: &Args, rt: &tokio::runtime::Runtime, n: &mut usize, fmt: &str, tf: &str, s: TileCompression, t: Option<TileCompression>, f: bool) {
	let line = format!("C04 e2e {fmt} {tf} {} {} {}", cname(s), t.map_or("keep", cname), f as u8);
	let sig = |kind: &str, class: &str| json!({"kind":kind,"fmt":fmt,"tileformat":tf,"src":cname(s),"target":t.map_or("keep", cname),"force":f,"class":class});
	let format = tile_format_of(tf);
	let mut payloads = payload_classes(args.seed, format);
	if fmt == "mbtiles" {
		// MBTilesReader cannot open a file with an empty zoom level between min and max zoom (DESIGN §8 F10,
		// a defect owned by C16/C01); keep the levels contiguous here so that C04 does not depend on it
		for (_, c, _) in payloads.list.iter_mut() {
			if c.0 == 9 {
				*c = (4, c.1 % 16, c.2 % 16);
			}
		}
	}
	let src_tiles: Vec<((u8, u32, u32), Vec<u8>)> = payloads.list.iter().map(|(_, c, p)| (*c, indep_enc(s, p))).collect();
	let tilejson = source_tilejson(format == TileFormat::PBF);
	*n += 1;
	let dir = args.out.join("e2e");
	std::fs::create_dir_all(&dir).unwrap();
	let path = if fmt == "directory" { dir.join(format!("d{n}")) } else { dir.join(format!("c{n}.{fmt}")) };
	if fmt == "directory" {
		std::fs::create_dir_all(&path).unwrap();
	}
	let path_s = path.to_str().unwrap().to_string();

	// 1. converter lookup path (no writer involved)
	{
		let reader = MemReader::new(format, s, tilejson.clone(), &src_tiles);
		let cp = TilesConverterParameters::new(t, None, f, false, false);
		let r = catch(|| {
			rt.block_on(async {
				let conv = TilesConvertReader::new_from_reader(reader.boxed(), cp)?;
				let declared = conv.get_parameters().tile_compression;
				let mut got = vec![];
				for (class, c, _) in payloads.list.iter() {
					let b = conv.get_tile_data(&TileCoord3::new(c.1, c.2, c.0)?).await?;
					got.push((*class, b.map(|b| b.into_vec())));
				}
				anyhow::Ok((declared, got))
			})
		});
		match r {
			Ok(Ok((declared, got))) => {
				for ((class, blob), (_, _, payload)) in got.iter().zip(payloads.list.iter()) {
					let ok = blob.as_ref().and_then(|b| indep_dec(declared, b)).as_ref() == Some(payload);
					out.oracle(ok, "C04 lookup payload", sig("lookup_payload", class), json!({"case": line, "class": class}));
					out.eval(&format!("{line} lookup {class}"), f || declared != s);
				}
			}
			_ => out.oracle(false, "C04 lookup failed", sig("lookup_failed", "-"), json!({"case": line})),
		}
	}

	// 2. full conversion into a container file, then read it back with the matching reader
	let reader = MemReader::new(format, s, tilejson.clone(), &src_tiles);
	let cp = TilesConverterParameters::new(t, None, f, false, false);
	let r = catch(|| rt.block_on(convert_tiles_container(reader.boxed(), cp, &path_s)));
	let expected_declared = t.unwrap_or(s);
	let ans = match r {
		Err(m) => {
			out.oracle(false, "C04 e2e panic", sig("e2e_panic", "-"), json!({"case": line, "panic": trunc(&m, 200)}));
			"panic".to_string()
		}
		Ok(Err(e)) => {
			// a writer may refuse a combination (mbtiles); that is not a wrong output
			let refused = format!("{e:#}").contains("not supported");
			out.oracle(refused && fmt == "mbtiles", "C04 e2e error", sig("e2e_error", "-"), json!({"case": line, "error": trunc(&format!("{e:#}"), 200)}));
			out.count("e2e_rejected");
			if refused {
				"rejected".to_string()
			} else {
				"err".to_string()
			}
		}
		Ok(Ok(())) => {
			let rb = catch(|| {
				rt.block_on(async {
					let rd = get_reader(&path_s).await?;
					let p = rd.get_parameters().clone();
					let mut lookups = vec![];
					for (class, c, _) in payloads.list.iter() {
						let b = rd.get_tile_data(&TileCoord3::new(c.1, c.2, c.0)?).await?;
						lookups.push((*class, b.map(|b| b.into_vec())));
					}
					let mut streamed: BTreeMap<(u8, u32, u32), Vec<u8>> = BTreeMap::new();
					let mut n_streamed = 0usize;
					for bbox in p.bbox_pyramid.iter_levels() {
						let v = rd.get_bbox_tile_stream(bbox.clone()).await.collect().await;
						for (c, b) in v {
							n_streamed += 1;
							streamed.insert((c.z, c.x, c.y), b.into_vec());
						}
					}
					let meta: Vec<Option<String>> = META_KEYS.iter().map(|k| rd.get_tilejson().get_string(k)).collect();
					let vl = rd.get_tilejson().as_object().get("vector_layers").map(|v| v.stringify());
					anyhow::Ok((p, lookups, streamed, n_streamed, meta, vl))
				})
			});
			match rb {
				Ok(Ok((p, lookups, streamed, n_streamed, meta, vl))) => {
					let declared = p.tile_compression;
					out.oracle(declared == expected_declared, "C04 e2e declared", sig("e2e_declared", "-"), json!({"case": line, "declared": cname(declared)}));
					out.oracle(p.tile_format == format, "C04 e2e tile format", sig("e2e_format", "-"), json!({"case": line}));
					let mut dropped_empty = 0usize;
					for ((class, blob), (_, c, payload)) in lookups.iter().zip(payloads.list.iter()) {
						out.eval(&format!("{line} {class}"), f || declared != s);
						out.count(&format!("payload_{class}"));
						if payload.is_empty() && (blob.is_none() || !streamed.contains_key(c)) {
							// a zero-length payload that cannot be read back: its own signature (known finding for
							// uncompressed versatiles/pmtiles, where a zero-length range means "no tile")
							if !streamed.contains_key(c) {
								dropped_empty += 1;
							}
							out.oracle(
								false,
								"C04 e2e empty tile dropped",
								json!({"kind":"empty_tile_dropped","fmt":fmt,"declared":cname(declared),"lookup_missing":blob.is_none(),"stream_missing":!streamed.contains_key(c)}),
								json!({"case": line, "class": class, "note": "source tile with a zero-length payload is absent from the output container"}),
							);
							continue;
						}
						let dec = blob.as_ref().and_then(|b| indep_dec(declared, b));
						out.oracle(
							dec.as_ref() == Some(payload),
							"C04 e2e payload",
							sig(if blob.is_none() { "e2e_tile_missing" } else if dec.is_none() { "e2e_not_declared_compression" } else { "e2e_payload" }, class),
							json!({"case": line, "class": class, "stored_len": blob.as_ref().map(|b| b.len()), "payload_len": payload.len()}),
						);
						let sdec = streamed.get(c).and_then(|b| indep_dec(declared, b));
						out.oracle(sdec.as_ref() == Some(payload), "C04 e2e stream payload", sig("e2e_stream_payload", class), json!({"case": line, "class": class}));
					}
					out.oracle(n_streamed + dropped_empty == payloads.list.len(), "C04 e2e stream count", sig("e2e_stream_count", "-"), json!({"case": line, "streamed": n_streamed}));
					// metadata
					let src_meta: Vec<Option<String>> = META_KEYS.iter().map(|k| tilejson.get_string(k)).collect();
					for (i, k) in META_KEYS.iter().enumerate() {
						if fmt == "mbtiles" && *k == "attribution" {
							continue; // mbtiles/writer.rs copies a fixed key list only (documented limitation of the format)
						}
						out.oracle(meta[i] == src_meta[i], "C04 e2e metadata", sig("e2e_meta", k), json!({"case": line, "key": k, "got": meta[i], "want": src_meta[i]}));
					}
					let src_vl = tilejson.as_object().get("vector_layers").map(|v| v.stringify());
					out.oracle(vl == src_vl, "C04 e2e metadata", sig("e2e_meta", "vector_layers"), json!({"case": line, "got": vl, "want": src_vl}));
					// the stored metadata file of tar/directory carries the declared compression in its name
					if fmt == "directory" {
						let name = format!("tiles.json{}", declared.extension());
						let raw = std::fs::read(path.join(&name)).ok();
						let dec = raw.as_ref().and_then(|b| indep_dec(declared, b));
						let okj = dec.as_ref().and_then(|d| std::str::from_utf8(d).ok().map(|s| s.contains("verif"))).unwrap_or(false);
						out.oracle(okj, "C04 e2e metadata file", sig("e2e_meta_file", "-"), json!({"case": line, "file": name}));
						// and every tile file is named with the declared compression's extension
						let (_, c, payload) = &payloads.list[0];
						let tname = format!("{}/{}/{}{}{}", c.0, c.1, c.2, format.extension(), declared.extension());
						let traw = std::fs::read(path.join(&tname)).ok();
						out.oracle(traw.as_ref().and_then(|b| indep_dec(declared, b)).as_ref() == Some(payload), "C04 e2e tile file", sig("e2e_tile_file", "-"), json!({"case": line, "file": tname}));
					}
					out.count(&format!("e2e_ok_{fmt}"));
					format!("declared={}", cname(declared))
				}
				Ok(Err(e)) => {
					out.oracle(false, "C04 e2e readback error", sig("e2e_readback", "-"), json!({"case": line, "error": trunc(&format!("{e:#}"), 200)}));
					"readback-err".into()
				}
				Err(m) => {
					out.oracle(false, "C04 e2e readback panic", sig("e2e_readback_panic", "-"), json!({"case": line, "panic": trunc(&m, 200)}));
					"readback-panic".into()
				}
			}
		}
	};
	out.case(&line, &ans, f || expected_declared != s);
	// scratch hygiene: containers with 270 KiB payloads add up
	if path.is_dir() {
		let _ = std::fs::remove_dir_all(&path);
	} else {
		let _ = std::fs::remove_file(&path);
	}
}

// ---------------------------------------------------------------------------------------------
// TileConverter::process_stream on its own (the path every writer uses)
// ---------------------------------------------------------------------------------------------
fn stream_check(out: &mut Out, rt: &tokio::runtime::Runtime, s: TileCompression, d: TileCompression, f: bool) {
	use versatiles_core::types::TileStream;
	let mut payloads: Vec<(String, Vec<u8>)> = adversarial_payloads().into_iter().map(|(n, p)| (n.to_string(), p)).collect();
	payloads.push(("one_byte".into(), vec![0x42]));
	payloads.push(("text".into(), b"plain text payload plain text payload".to_vec()));
	let items: Vec<(TileCoord3, Blob)> = payloads.iter().enumerate().map(|(i, (_, p))| (TileCoord3::new(i as u32, 0, 6).unwrap(), Blob::from(indep_enc(s, p)))).collect();
	let r = catch(|| {
		rt.block_on(async {
			let conv = TileConverter::new_tile_recompressor(&s, &d, f).unwrap();
			let st = conv.process_stream(TileStream::from_vec(items.clone()));
			st.collect().await
		})
	});
	let key = format!("C04 stream {} {} {}", cname(s), cname(d), f as u8);
	match r {
		Err(m) => out.oracle(false, "C04 stream panic", json!({"kind":"stream_panic","src":cname(s),"dst":cname(d),"force":f}), json!({"case": key, "panic": trunc(&m, 160)})),
		Ok(v) => {
			let got: BTreeMap<u32, Vec<u8>> = v.into_iter().map(|(c, b)| (c.x, b.into_vec())).collect();
			out.oracle(got.len() == payloads.len(), "C04 stream count", json!({"kind":"stream_count","src":cname(s),"dst":cname(d),"force":f}), json!({"case": key, "got": got.len()}));
			for (i, (name, p)) in payloads.iter().enumerate() {
				let dec = got.get(&(i as u32)).and_then(|b| indep_dec(d, b));
				out.oracle(
					dec.as_ref() == Some(p),
					"C04 stream payload",
					json!({"kind":"stream_payload","src":cname(s),"dst":cname(d),"force":f,"class":name}),
					json!({"case": key, "class": name, "payload_hex": hex(&p[..p.len().min(24)])}),
				);
				out.eval(&format!("{key} {name}"), f || s != d);
			}
		}
	}
	out.count("stream_checks");
}

// ---------------------------------------------------------------------------------------------
// a PMTiles conversion whose directory spills into leaf directories (seeded regression C04-2): the leaf
// directories must not land on the metadata / tile data
// ---------------------------------------------------------------------------------------------
fn leaves_case(out: &mut Out, args: &Args, rt: &tokio::runtime::Runtime, s: TileCompression, t: Option<TileCompression>, f: bool) {
	let line = format!("C04 leaves {} {} {}", cname(s), t.map_or("keep", cname), f as u8);
	let sig = |kind: &str| json!({"kind":kind,"fmt":"pmtiles-leaves","src":cname(s),"target":t.map_or("keep", cname),"force":f});
	// 130 × 130 = 16900 tiles (> 16384 entries ⇒ leaf directories) of irregular sizes, so that the directory
	// compresses badly and the leaf directories together exceed the 16 KiB reserved in front of the metadata
	let mut rng = Rng::new(args.seed ^ 0x1eaf);
	let z = 8u8;
	let (x0, y0) = (17u32, 40u32);
	let mut payloads: BTreeMap<(u8, u32, u32), Vec<u8>> = BTreeMap::new();
	for x in 0..130u32 {
		for y in 0..130u32 {
			let n = rng.range(1, 220) as usize;
			let p: Vec<u8> = if rng.chance(1, 3) { rng.bytes(n) } else { (0..n).map(|j| ((j as u32 * (x + 3) + y) % 11) as u8 + 97).collect() };
			payloads.insert((z, x0 + x, y0 + y), p);
		}
	}
	let src_tiles: Vec<((u8, u32, u32), Vec<u8>)> = payloads.iter().map(|(c, p)| (*c, if s == TileCompression::Gzip { gz_enc(p, 1) } else if s == TileCompression::Brotli { br_enc(p, 1, 16) } else { p.clone() })).collect();
	let tilejson = source_tilejson(true);
	let dir = args.out.join("e2e");
	std::fs::create_dir_all(&dir).unwrap();
	let path = dir.join(format!("leaves_{}_{}_{}.pmtiles", cname(s), t.map_or("keep", cname), f as u8));
	let path_s = path.to_str().unwrap().to_string();
	let reader = MemReader::new(TileFormat::PBF, s, tilejson.clone(), &src_tiles);
	let cp = TilesConverterParameters::new(t, None, f, false, false);
	let r = catch(|| rt.block_on(convert_tiles_container(reader.boxed(), cp, &path_s)));
	let expected_declared = t.unwrap_or(s);
	let ans = match r {
		Err(m) => {
			out.oracle(false, "C04 leaves panic", sig("e2e_panic"), json!({"case": line, "panic": trunc(&m, 200)}));
			"panic".to_string()
		}
		Ok(Err(e)) => {
			out.oracle(false, "C04 leaves error", sig("e2e_error"), json!({"case": line, "error": trunc(&format!("{e:#}"), 200)}));
			"err".to_string()
		}
		Ok(Ok(())) => {
			let coords: Vec<(u8, u32, u32)> = payloads.keys().cloned().collect();
			let rb = catch(|| {
				rt.block_on(async {
					let rd = get_reader(&path_s).await?;
					let p = rd.get_parameters().clone();
					// every 7th tile by lookup (plus the corners), all tiles by stream
					let mut lookups = vec![];
					for (i, c) in coords.iter().enumerate() {
						if i % 7 == 0 || i < 40 || i + 40 > coords.len() {
							let b = rd.get_tile_data(&TileCoord3::new(c.1, c.2, c.0)?).await.ok().flatten();
							lookups.push((*c, b.map(|b| b.into_vec())));
						}
					}
					let mut streamed: BTreeMap<(u8, u32, u32), Vec<u8>> = BTreeMap::new();
					for bbox in p.bbox_pyramid.iter_levels() {
						for (c, b) in rd.get_bbox_tile_stream(bbox.clone()).await.collect().await {
							streamed.insert((c.z, c.x, c.y), b.into_vec());
						}
					}
					let meta: Vec<Option<String>> = META_KEYS.iter().map(|k| rd.get_tilejson().get_string(k)).collect();
					let vl = rd.get_tilejson().as_object().get("vector_layers").map(|v| v.stringify());
					anyhow::Ok((p, lookups, streamed, meta, vl))
				})
			});
			match rb {
				Ok(Ok((p, lookups, streamed, meta, vl))) => {
					let declared = p.tile_compression;
					out.oracle(declared == expected_declared, "C04 leaves declared", sig("e2e_declared"), json!({"case": line, "declared": cname(declared)}));
					let bad_lookup: Vec<String> = lookups.iter().filter(|(c, b)| b.as_ref().and_then(|b| indep_dec(declared, b)).as_ref() != payloads.get(c)).take(5).map(|(c, _)| format!("{}/{}/{}", c.0, c.1, c.2)).collect();
					out.oracle(bad_lookup.is_empty(), "C04 leaves payload (lookup)", sig("leaves_lookup_payload"), json!({"case": line, "first_bad": bad_lookup, "checked": lookups.len()}));
					let bad_stream: Vec<String> = payloads.iter().filter(|(c, p)| streamed.get(*c).and_then(|b| indep_dec(declared, b)).as_ref() != Some(*p)).take(5).map(|(c, _)| format!("{}/{}/{}", c.0, c.1, c.2)).collect();
					out.oracle(bad_stream.is_empty() && streamed.len() == payloads.len(), "C04 leaves payload (stream)", sig("leaves_stream_payload"), json!({"case": line, "first_bad": bad_stream, "streamed": streamed.len(), "expected": payloads.len()}));
					let src_meta: Vec<Option<String>> = META_KEYS.iter().map(|k| tilejson.get_string(k)).collect();
					out.oracle(meta == src_meta, "C04 leaves metadata", sig("leaves_meta"), json!({"case": line, "got": meta, "want": src_meta}));
					let src_vl = tilejson.as_object().get("vector_layers").map(|v| v.stringify());
					out.oracle(vl == src_vl, "C04 leaves metadata", sig("leaves_meta_vector_layers"), json!({"case": line}));
					// make sure the case really exercises leaf directories: header bytes 48..56 = leaf_dirs length (PMTiles v3)
					let raw = std::fs::read(&path).unwrap_or_default();
					let leaf_len = if raw.len() >= 56 { u64::from_le_bytes(raw[48..56].try_into().unwrap()) } else { 0 };
					out.extra.insert(format!("leaves_{}", line.replace(' ', "_")), json!({"tiles": payloads.len(), "leaf_directory_bytes": leaf_len, "file_bytes": raw.len()}));
					out.oracle(leaf_len > 16384, "C04 leaves set-up: leaf directories too small to matter", sig("leaves_setup"), json!({"case": line, "leaf_directory_bytes": leaf_len}));
					out.eval(&line, true);
					out.count_n("leaves_tiles_checked", (lookups.len() + streamed.len()) as u64);
					format!("declared={}", cname(declared))
				}
				Ok(Err(e)) => {
					out.oracle(false, "C04 leaves readback error", sig("leaves_readback"), json!({"case": line, "error": trunc(&format!("{e:#}"), 200)}));
					"readback-err".into()
				}
				Err(m) => {
					out.oracle(false, "C04 leaves readback panic", sig("leaves_readback_panic"), json!({"case": line, "panic": trunc(&m, 200)}));
					"readback-panic".into()
				}
			}
		}
	};
	out.case(&line, &ans, true);
	let _ = std::fs::remove_file(&path);
}

// ---------------------------------------------------------------------------------------------
// "worlds": option interplay, pre-existing output, extreme coordinates, independently written sources, many tiles,
// faulty sources (CHECKLIST classes 1, 2, 4, 5, 8, 9)
// ---------------------------------------------------------------------------------------------
type Coord3 = (u8, u32, u32);

/// convert `reader` with `cp` into `path`, reopen with the matching reader, compare with `expected` (payload per OUTPUT
/// coordinate).  Returns the model answer.
#[allow(clippy::too_many_arguments)]
fn convert_and_check(out: &mut Out, rt: &tokio::runtime::Runtime, line: &str, kind: &str, reader: Box<dyn TilesReaderTrait>, cp: TilesConverterParameters, path: &Path, expected: &BTreeMap<Coord3, Vec<u8>>, expected_declared: TileCompression, nontrivial: bool) -> String {
	convert_and_check_named(out, rt, line, kind, reader, cp, path, expected, expected_declared, nontrivial, &["verif \u{e4} name", "indep"])
}

/// `names`: acceptable values of the `name` key of the metadata read back
#[allow(clippy::too_many_arguments)]
fn convert_and_check_named(out: &mut Out, rt: &tokio::runtime::Runtime, line: &str, kind: &str, reader: Box<dyn TilesReaderTrait>, cp: TilesConverterParameters, path: &Path, expected: &BTreeMap<Coord3, Vec<u8>>, expected_declared: TileCompression, nontrivial: bool, names: &[&str]) -> String {
	let fmt_of_line = line.split(' ').nth(3).unwrap_or("-").to_string();
	let variant = line.split(' ').nth(7).unwrap_or("-").to_string();
	let sig = |k: &str| {
		if kind == "twice" {
			// a second conversion into the same target: its own failure kind (must not be swallowed by the known
			// finding about leftovers of OTHER names in a directory)
			let what = match k {
				"world_lookup_payload" | "world_stream_payload" => "stale_same_name",
				"world_meta" => "stale_metadata",
				other => other,
			};
			json!({"kind": "existing_output", "what": what, "fmt": fmt_of_line, "variant": variant})
		} else {
			json!({"kind": k, "world": kind, "fmt": fmt_of_line})
		}
	};
	let path_s = path.to_str().unwrap().to_string();
	let r = catch(|| rt.block_on(convert_tiles_container(reader, cp, &path_s)));
	match r {
		Err(m) => {
			out.oracle(false, "C04 world panic", sig("world_panic"), json!({"case": line, "panic": trunc(&m, 200)}));
			"panic".into()
		}
		Ok(Err(e)) => {
			let refused = format!("{e:#}").contains("not supported");
			out.oracle(refused, "C04 world error", sig("world_error"), json!({"case": line, "error": trunc(&format!("{e:#}"), 200)}));
			if refused { "rejected".into() } else { "err".into() }
		}
		Ok(Ok(())) => {
			let coords: Vec<Coord3> = expected.keys().cloned().collect();
			let rb = catch(|| {
				rt.block_on(async {
					let rd = get_reader(&path_s).await?;
					let p = rd.get_parameters().clone();
					let mut lookups = vec![];
					for c in coords.iter() {
						let b = rd.get_tile_data(&TileCoord3::new(c.1, c.2, c.0)?).await.ok().flatten();
						lookups.push((*c, b.map(|b| b.into_vec())));
					}
					let mut streamed: BTreeMap<Coord3, Vec<u8>> = BTreeMap::new();
					for bbox in p.bbox_pyramid.iter_levels() {
						// sparse deep levels: only the cells around expected tiles (a full level-31 box cannot be walked)
						if bbox.count_tiles() > 1_000_000 {
							continue;
						}
						for (c, b) in rd.get_bbox_tile_stream(bbox.clone()).await.collect().await {
							streamed.insert((c.z, c.x, c.y), b.into_vec());
						}
					}
					let walked: Vec<u8> = p.bbox_pyramid.iter_levels().filter(|b| b.count_tiles() <= 1_000_000).map(|b| b.level).collect();
					let name = rd.get_tilejson().get_string("name");
					anyhow::Ok((p, lookups, streamed, walked, name))
				})
			});
			match rb {
				Ok(Ok((p, lookups, streamed, walked, name))) => {
					let declared = p.tile_compression;
					out.oracle(declared == expected_declared, "C04 world declared", sig("world_declared"), json!({"case": line, "declared": cname(declared)}));
					let bad: Vec<String> = lookups.iter().filter(|(c, b)| b.as_ref().and_then(|b| indep_dec(declared, b)).as_ref() != expected.get(c)).take(5).map(|(c, b)| format!("{}/{}/{}:{}", c.0, c.1, c.2, if b.is_none() { "missing" } else { "wrong" })).collect();
					out.oracle(bad.is_empty(), "C04 world payload (lookup)", sig("world_lookup_payload"), json!({"case": line, "first_bad": bad, "checked": lookups.len()}));
					let exp_walked: Vec<(&Coord3, &Vec<u8>)> = expected.iter().filter(|(c, _)| walked.contains(&c.0)).collect();
					let bad_s: Vec<String> = exp_walked.iter().filter(|(c, p)| streamed.get(*c).and_then(|b| indep_dec(declared, b)).as_ref() != Some(*p)).take(5).map(|(c, _)| format!("{}/{}/{}", c.0, c.1, c.2)).collect();
					// a directory keeps the files of an earlier conversion whose names are not written again (known finding
					// C04-directory-stale-files): reported with its own signature, the payload oracle looks at the expected names
					let leftovers = kind == "twice" && fmt_of_line == "directory" && bad_s.is_empty() && streamed.len() > exp_walked.len();
					if leftovers {
						out.oracle(false, "C04 existing output: leftovers of the earlier conversion", json!({"kind":"existing_output","what":"leftover_tiles","fmt":"directory"}), json!({"case": line, "streamed": streamed.len(), "expected": exp_walked.len()}));
					} else {
						out.oracle(bad_s.is_empty() && streamed.len() == exp_walked.len(), "C04 world payload (stream)", sig("world_stream_payload"), json!({"case": line, "first_bad": bad_s, "streamed": streamed.len(), "expected": exp_walked.len()}));
					}
					out.oracle(name.as_deref().is_some_and(|n| names.contains(&n)), "C04 world metadata", sig("world_meta"), json!({"case": line, "name": name, "want": names}));
					for c in expected.keys() {
						out.eval(&format!("{line} {c:?}"), nontrivial);
					}
					out.count(&format!("world_{kind}"));
					format!("declared={}", cname(declared))
				}
				Ok(Err(e)) => {
					out.oracle(false, "C04 world readback error", sig("world_readback"), json!({"case": line, "error": trunc(&format!("{e:#}"), 200)}));
					"readback-err".into()
				}
				Err(m) => {
					out.oracle(false, "C04 world readback panic", sig("world_readback_panic"), json!({"case": line, "panic": trunc(&m, 200)}));
					"readback-panic".into()
				}
			}
		}
	}
}

fn target_path(args: &Args, tag: &str, fmt: &str) -> std::path::PathBuf {
	let dir = args.out.join("e2e");
	std::fs::create_dir_all(&dir).unwrap();
	let p = if fmt == "directory" { dir.join(format!("w_{tag}_dir")) } else { dir.join(format!("w_{tag}.{fmt}")) };
	if fmt == "directory" {
		let _ = std::fs::remove_dir_all(&p);
		std::fs::create_dir_all(&p).unwrap();
	} else {
		let _ = std::fs::remove_file(&p);
	}
	p
}
fn cleanup(p: &Path) {
	if p.is_dir() {
		let _ = std::fs::remove_dir_all(p);
	} else {
		let _ = std::fs::remove_file(p);
	}
}
fn small_world() -> Vec<(Coord3, Vec<u8>)> {
	vec![
		((2, 1, 0), b"tile 2/1/0 tile 2/1/0 tile 2/1/0".to_vec()),
		((3, 1, 2), b"tile 3/1/2 tile 3/1/2 tile 3/1/2 tile 3/1/2".to_vec()),
		((3, 5, 6), vec![0x42]),
		((3, 0, 7), (0..1200u32).map(|i| (i % 13) as u8).collect()),
		((3, 7, 7), b"tile 3/1/2 tile 3/1/2 tile 3/1/2 tile 3/1/2".to_vec()),
		((3, 7, 0), gz_enc(b"payload that is a gzip stream", 6)),
	]
}
fn tstr(t: Option<TileCompression>) -> &'static str {
	t.map_or("keep", cname)
}

/// `C04 world <kind> <fmt> <src> <target> <force> <a> <b> <c>` – a, b, c depend on the kind
#[allow(clippy::too_many_arguments)]
fn world_case(out: &mut Out, args: &Args, rt: &tokio::runtime::Runtime, kind: &str, fmt: &str, s: TileCompression, t: Option<TileCompression>, f: bool, a: u8, b: u8, c: u8) {
	let line = format!("C04 world {kind} {fmt} {} {} {} {a} {b} {c}", cname(s), tstr(t), f as u8);
	let declared = t.unwrap_or(s);
	let tj = source_tilejson(true);
	let tag = format!("{kind}_{fmt}_{}_{}_{}_{a}{b}{c}", cname(s), tstr(t), f as u8);
	let path = target_path(args, &tag, fmt);
	let ans = match kind {
		// class 4: compression change × force × flip_y × swap_xy × bbox
		"opts" => {
			let (flip, swap, with_bbox) = (a == 1, b == 1, c == 1);
			let world = small_world();
			let src: Vec<(Coord3, Vec<u8>)> = world.iter().map(|(c, p)| (*c, indep_enc(s, p))).collect();
			let reader = MemReader::new(TileFormat::PBF, s, tj, &src);
			let bbox = if with_bbox {
				let mut p = TileBBoxPyramid::new_empty();
				p.include_bbox(&versatiles_core::types::TileBBox::new(3, 0, 0, 7, 7).unwrap());
				Some(p)
			} else {
				None
			};
			let cp = TilesConverterParameters::new(t, bbox, f, flip, swap);
			let mut expected = BTreeMap::new();
			for ((z, x, y), p) in &world {
				if with_bbox && *z != 3 {
					continue;
				}
				let n = 1u32 << z;
				let (mut ox, mut oy) = (*x, *y);
				if flip {
					oy = n - 1 - oy;
				}
				if swap {
					std::mem::swap(&mut ox, &mut oy);
				}
				expected.insert((*z, ox, oy), p.clone());
			}
			convert_and_check(out, rt, &line, kind, reader.boxed(), cp, &path, &expected, declared, true)
		}
		// class 5: the output already exists and is longer than what will be written (a = 1: garbage, a = 2: an earlier conversion)
		"preexist" => {
			let world = small_world();
			let src: Vec<(Coord3, Vec<u8>)> = world.iter().map(|(c, p)| (*c, indep_enc(s, p))).collect();
			if fmt == "directory" {
				// an earlier conversion of the SAME world with another compression left its files behind
				let earlier: Vec<(Coord3, Vec<u8>)> = world.iter().map(|(c, p)| (*c, p.clone())).collect();
				let mut r0 = MemReader::new(TileFormat::PBF, TileCompression::Uncompressed, tj.clone(), &earlier);
				rt.block_on(versatiles_container::write_to_filename(&mut r0, path.to_str().unwrap())).unwrap();
			} else if a == 2 {
				let big: Vec<(Coord3, Vec<u8>)> = (0..64u32).map(|i| ((6u8, i, i), vec![i as u8; 5000])).collect();
				let fm = if fmt == "mbtiles" { TileCompression::Gzip } else { TileCompression::Uncompressed };
				let mut r0 = MemReader::new(TileFormat::PBF, fm, tj.clone(), &big);
				rt.block_on(versatiles_container::write_to_filename(&mut r0, path.to_str().unwrap())).unwrap();
			} else {
				std::fs::write(&path, vec![0xABu8; 400_000]).unwrap();
			}
			let reader = MemReader::new(TileFormat::PBF, s, tj, &src);
			let cp = TilesConverterParameters::new(t, None, f, false, false);
			let expected: BTreeMap<Coord3, Vec<u8>> = world.into_iter().collect();
			convert_and_check(out, rt, &line, kind, reader.boxed(), cp, &path, &expected, declared, true)
		}
		// class 5, second half: the target holds the output of an EARLIER CONVERSION with the same format and target
		// compression – same file names, possibly the same lengths (seeded regression C04-10: "don't rewrite a file of the
		// same length").  a = 1: same coordinates, same lengths, one byte per tile differs, metadata of equal length;
		// a = 2: same coordinates, other lengths; a = 3: the second world is a subset; a = 4: identical content
		"twice" => {
			let world_a = small_world();
			let world_b: Vec<(Coord3, Vec<u8>)> = match a {
				1 => world_a.iter().map(|(c, p)| (*c, { let mut q = p.clone(); let n = q.len(); q[n - 1] ^= 0xff; q })).collect(),
				2 => world_a.iter().map(|(c, p)| (*c, { let mut q = p.clone(); q.extend_from_slice(b" (second edition)"); q })).collect(),
				3 => world_a.iter().step_by(2).map(|(c, p)| (*c, { let mut q = p.clone(); q[0] ^= 0x55; q })).collect(),
				_ => world_a.clone(),
			};
			let name_b = match a {
				1 | 3 => "verif \u{f6} name", // same length as the first name
				2 => "verif \u{e4} name, second edition",
				_ => "verif \u{e4} name",
			};
			let tj_b = {
				let mut t2 = tj.clone();
				t2.set_string("name", name_b).unwrap();
				t2
			};
			let enc = |w: &Vec<(Coord3, Vec<u8>)>| -> Vec<(Coord3, Vec<u8>)> { w.iter().map(|(c, p)| (*c, indep_enc(s, p))).collect() };
			// first conversion
			let r0 = MemReader::new(TileFormat::PBF, s, tj.clone(), &enc(&world_a));
			let first = catch(|| rt.block_on(convert_tiles_container(r0.boxed(), TilesConverterParameters::new(t, None, f, false, false), path.to_str().unwrap())));
			if !matches!(first, Ok(Ok(()))) {
				out.oracle(false, "C04 existing output: first conversion failed", json!({"kind":"existing_output","what":"first_failed","fmt":fmt}), json!({"case": line}));
			}
			// second conversion into the same target
			let reader = MemReader::new(TileFormat::PBF, s, tj_b, &enc(&world_b));
			let cp = TilesConverterParameters::new(t, None, f, false, false);
			let expected: BTreeMap<Coord3, Vec<u8>> = world_b.into_iter().collect();
			convert_and_check_named(out, rt, &line, kind, reader.boxed(), cp, &path, &expected, declared, true, &[name_b])
		}
		// class 8: zoom 0 and the far corner of zoom 30 / 31
		"z31" => {
			let m31 = 0x7fff_ffffu32;
			let world: Vec<(Coord3, Vec<u8>)> = vec![
				((0, 0, 0), b"the one tile of zoom 0".to_vec()),
				((30, 0x3fff_ffff, 0x3fff_ffff), b"far corner of zoom 30".to_vec()),
				((31, m31, m31), b"far corner of zoom 31".to_vec()),
				((31, m31 - 1, m31), vec![0x42]),
				((31, m31, m31 - 300), b"another block row at zoom 31".to_vec()),
			];
			let src: Vec<(Coord3, Vec<u8>)> = world.iter().map(|(c, p)| (*c, indep_enc(s, p))).collect();
			let reader = MemReader::new(TileFormat::PBF, s, tj, &src);
			let cp = TilesConverterParameters::new(t, None, f, false, false);
			let expected: BTreeMap<Coord3, Vec<u8>> = world.into_iter().collect();
			convert_and_check(out, rt, &line, kind, reader.boxed(), cp, &path, &expected, declared, true)
		}
		// class 9: the SOURCE container was not written by this code base
		"indep" => {
			use crate::indep_formats as fi;
			let world = small_world();
			let stored: fi::TileMap = world.iter().map(|(c, p)| (*c, indep_enc(s, p))).collect();
			let mut rng = Rng::new(args.seed ^ 0x1de9);
			let comp = match s {
				TileCompression::Uncompressed => fi::Comp::None,
				TileCompression::Gzip => fi::Comp::Gzip,
				TileCompression::Brotli => fi::Comp::Brotli,
			};
			let srcp = args.out.join("e2e").join(format!("indep_src_{tag}.{}", if a == 0 { "versatiles" } else { "pmtiles" }));
			let bytes = if a == 0 {
				let mut ch = fi::VtChoices::plain(fi::Fmt::Pbf, comp);
				ch.meta = Some(b"{\"tilejson\":\"3.0.0\",\"name\":\"indep\"}".to_vec());
				ch.range_mode = 1;
				ch.shuffle_blocks = true;
				ch.shuffle_index = true;
				ch.blob_order = 1 + b;
				ch.share = true;
				ch.max_gap = 9;
				fi::encode_versatiles(&stored, &ch, &mut rng).bytes
			} else {
				let mut ch = fi::PmChoices::plain(1, comp.pm_code());
				ch.meta = b"{\"name\":\"indep\"}".to_vec();
				ch.levels = 2;
				ch.fan_leaf = 2;
				ch.merge_runs = true;
				ch.share = true;
				ch.section_order = if b == 0 { [2, 1, 0] } else { [1, 0, 2] };
				ch.max_gap = 4;
				fi::encode_pmtiles(&stored, &ch, &mut rng).bytes
			};
			std::fs::write(&srcp, bytes).unwrap();
			let opened = catch(|| rt.block_on(get_reader(srcp.to_str().unwrap())));
			let r = match opened {
				Ok(Ok(reader)) => {
					let cp = TilesConverterParameters::new(t, None, f, false, false);
					let expected: BTreeMap<Coord3, Vec<u8>> = world.into_iter().collect();
					convert_and_check(out, rt, &line, kind, reader, cp, &path, &expected, declared, true)
				}
				_ => {
					out.oracle(false, "C04 world: independently written source cannot be opened", json!({"kind":"world_indep_open","world":kind}), json!({"case": line}));
					"open-err".into()
				}
			};
			let _ = std::fs::remove_file(&srcp);
			r
		}
		// class 1: more tiles than the writers' batch sizes (mbtiles inserts in batches of 2000)
		"many" => {
			let side = 20 + 45 * a as u32; // a = 1: 65 × 65 = 4225 tiles
			let mut world: Vec<(Coord3, Vec<u8>)> = vec![];
			for x in 0..side {
				for y in 0..side {
					world.push(((7, 10 + x, 30 + y), format!("tile {x} {y} {}", "x".repeat(((x * 7 + y) % 40) as usize)).into_bytes()));
				}
			}
			let src: Vec<(Coord3, Vec<u8>)> = world.iter().map(|(c, p)| (*c, if s == TileCompression::Uncompressed { p.clone() } else { indep_enc(s, p) })).collect();
			let reader = MemReader::new(TileFormat::PBF, s, tj, &src);
			let cp = TilesConverterParameters::new(t, None, f, false, false);
			let expected: BTreeMap<Coord3, Vec<u8>> = world.into_iter().collect();
			convert_and_check(out, rt, &line, kind, reader.boxed(), cp, &path, &expected, declared, true)
		}
		// class 2: one stored tile is not a valid stream of the declared compression
		"fault" => {
			let world = small_world();
			let mut src: Vec<(Coord3, Vec<u8>)> = world.iter().map(|(c, p)| (*c, indep_enc(s, p))).collect();
			src[2].1 = b"this is neither gzip nor brotli \xff\xfe\xfd".to_vec();
			let must_recode = f || declared != s;
			let reader = MemReader::new(TileFormat::PBF, s, tj, &src);
			let cp = TilesConverterParameters::new(t, None, f, false, false);
			let path_s = path.to_str().unwrap().to_string();
			let r = catch(|| rt.block_on(convert_tiles_container(reader.boxed(), cp, &path_s)));
			let sig = json!({"kind":"world_fault","world":kind,"fmt":fmt,"must_recode":must_recode});
			match r {
				Ok(Ok(())) => {
					// delivered: then EVERYTHING must be there unchanged (only possible when nothing had to be recoded)
					let rb = catch(|| {
						rt.block_on(async {
							let rd = get_reader(&path_s).await?;
							let mut v = vec![];
							for (c, _) in &src {
								v.push(rd.get_tile_data(&TileCoord3::new(c.1, c.2, c.0)?).await.ok().flatten().map(|b| b.into_vec()));
							}
							anyhow::Ok(v)
						})
					});
					let same = matches!(&rb, Ok(Ok(v)) if v.iter().zip(src.iter()).all(|(got, (_, want))| got.as_ref() == Some(want)));
					out.oracle(!must_recode && same, "C04 world fault: conversion of an undecodable tile reported success", sig, json!({"case": line, "all_tiles_identical": same}));
					out.eval(&line, true);
					if must_recode { "ok-but-should-fail".into() } else { format!("declared={}", cname(declared)) }
				}
				_ => {
					// failing loudly is right when the tile has to be recoded
					out.oracle(must_recode, "C04 world fault: pass-through conversion failed", sig, json!({"case": line}));
					out.eval(&line, true);
					"failed".into()
				}
			}
		}
		_ => panic!("world kind {kind}"),
	};
	if kind == "preexist" && fmt == "directory" {
		// stale files of the earlier conversion are outside the model (known finding C04-directory-stale-files): oracle only
		out.eval(&line, true);
	} else {
		out.case(&line, &ans, true);
	}
	cleanup(&path);
}

// ---------------------------------------------------------------------------------------------
// the versatiles block writer: de-duplication layout against the model (`C04 dedup <len>:<id>,…`)
// ---------------------------------------------------------------------------------------------
fn dedup_case(out: &mut Out, args: &Args, rt: &tokio::runtime::Runtime, spec: &str) {
	use crate::indep_formats as fi;
	let line = format!("C04 dedup {spec}");
	let blobs: Vec<Vec<u8>> = spec
		.split(',')
		.map(|t| {
			let (l, i) = t.split_once(':').unwrap();
			vec![i.parse::<u8>().unwrap(); l.parse::<usize>().unwrap()]
		})
		.collect();
	// one block (zoom 8), one row: stream order = index order = position in the list
	let tiles: Vec<(Coord3, Vec<u8>)> = blobs.iter().enumerate().map(|(i, b)| ((8u8, i as u32, 0u32), b.clone())).collect();
	let path = target_path(args, &format!("dedup{}", fnv_str(spec)), "versatiles");
	let mut reader = MemReader::new(TileFormat::BIN, TileCompression::Uncompressed, source_tilejson(false), &tiles);
	let r = catch(|| rt.block_on(versatiles_container::write_to_filename(&mut reader, path.to_str().unwrap())));
	let ans = match r {
		Ok(Ok(())) => {
			let bytes = std::fs::read(&path).unwrap_or_default();
			match fi::parse_versatiles(&bytes) {
				Ok(p) if p.records.len() == 1 => {
					let rec = &p.records[0];
					let io = (rec.offset + rec.blobs_len) as usize;
					match fi::brotli_d(&bytes[io..io + rec.index_len as usize]) {
						Ok(raw) if raw.len() == 12 * blobs.len() => {
							let ranges: Vec<(u64, u64)> = raw.chunks(12).map(|e| (u64::from_be_bytes(e[0..8].try_into().unwrap()), u32::from_be_bytes(e[8..12].try_into().unwrap()) as u64)).collect();
							// direct oracle: every entry reads back its blob from the block's blob area
							let ok = ranges.iter().zip(blobs.iter()).all(|((o, l), b)| {
								let s = (rec.offset + o) as usize;
								*o + *l <= rec.blobs_len && bytes.get(s..s + *l as usize) == Some(b.as_slice())
							});
							out.oracle(ok, "C04 dedup: index entry does not read back its blob", json!({"kind":"dedup_read"}), json!({"case": line}));
							format!("data={} ranges={}", rec.blobs_len, ranges.iter().map(|(o, l)| format!("{o}:{l}")).collect::<Vec<_>>().join(","))
						}
						_ => "bad-index".into(),
					}
				}
				_ => "bad-file".into(),
			}
		}
		Ok(Err(_)) => "err".into(),
		Err(_) => "panic".into(),
	};
	out.case(&line, &ans, blobs.len() >= 2);
	out.count("dedup_cases");
	cleanup(&path);
}

fn fnv_str(s: &str) -> u64 {
	let mut h: u64 = 0xcbf29ce484222325;
	for b in s.as_bytes() {
		h ^= *b as u64;
		h = h.wrapping_mul(0x100000001b3);
	}
	h
}

fn gen_dedup_spec(rng: &mut Rng) -> String {
	let n = rng.range(1, 12) as usize;
	let lens = [1usize, 2, 17, 500, 998, 999, 1000, 1001, 1500];
	let mut pool: Vec<(usize, u8)> = vec![];
	let mut v = vec![];
	for _ in 0..n {
		let item = if !pool.is_empty() && rng.chance(1, 2) {
			*rng.pick(&pool)
		} else {
			let it = (*rng.pick(&lens), rng.below(4) as u8 + 1);
			pool.push(it);
			it
		};
		v.push(format!("{}:{}", item.0, item.1));
	}
	v.join(",")
}

// ---------------------------------------------------------------------------------------------
// class 5 (reuse / state that outlives an object): the SAME input blob through DIFFERENT pipelines, back to back on one
// thread (blob path, stream path on a current-thread runtime, and whole one-tile conversions) – seeded regression C04-7
// ---------------------------------------------------------------------------------------------
fn same_blob_sequences(out: &mut Out, args: &Args) {
	use versatiles_core::types::TileStream;
	let rt1 = tokio::runtime::Builder::new_current_thread().enable_all().build().unwrap();
	let payloads: Vec<Vec<u8>> = vec![b"ocean tile ocean tile ocean tile ocean tile".to_vec(), vec![0x42], gz_enc(b"nested", 6)];
	let mut n = 0u64;
	for p in &payloads {
		for s in COMPS {
			let blob = indep_enc(s, p);
			// every (dst, force) twice in two different orders, always the same input bytes
			let mut order: Vec<(TileCompression, bool)> = vec![];
			for d in COMPS {
				for f in [false, true] {
					order.push((d, f));
				}
			}
			let mut rev = order.clone();
			rev.reverse();
			order.extend(rev);
			for (d, f) in order {
				let key = format!("C04 sameblob {} {} {} {}", cname(s), cname(d), f as u8, hex(&p[..p.len().min(8)]));
				let conv = TileConverter::new_tile_recompressor(&s, &d, f).unwrap();
				let a = catch(|| conv.process_blob(Blob::from(blob.clone())).ok().map(|b| b.into_vec()));
				let st = catch(|| rt1.block_on(async { conv.process_stream(TileStream::from_vec(vec![(TileCoord3::new(0, 0, 0).unwrap(), Blob::from(blob.clone()))])).collect().await }));
				let ok_a = matches!(&a, Ok(Some(b)) if indep_dec(d, b).as_ref() == Some(p));
				let ok_s = matches!(&st, Ok(v) if v.len() == 1 && indep_dec(d, v[0].1.as_slice()).as_ref() == Some(p));
				out.oracle(ok_a && ok_s, "C04 same blob through another pipeline", json!({"kind":"same_blob_other_pipeline","src":cname(s),"dst":cname(d),"force":f,"blob_path_ok":ok_a,"stream_path_ok":ok_s}), json!({"case": key}));
				out.eval(&key, true);
				n += 1;
			}
		}
	}
	// whole conversions of a one-tile source, different targets back to back, on the current-thread runtime
	let dir = args.out.join("e2e");
	std::fs::create_dir_all(&dir).unwrap();
	let p = payloads[0].clone();
	for s in COMPS {
		for (i, t) in [Some(COMPS[2]), Some(COMPS[0]), Some(COMPS[1]), None, Some(COMPS[0]), Some(COMPS[2])].iter().enumerate() {
			let src = vec![((0u8, 0u32, 0u32), indep_enc(s, &p))];
			let path = dir.join(format!("one_{}_{}.versatiles", cname(s), i));
			let reader = MemReader::new(TileFormat::PBF, s, source_tilejson(true), &src);
			let cp = TilesConverterParameters::new(*t, None, i % 2 == 1, false, false);
			let key = format!("C04 onetile {} {} {}", cname(s), t.map_or("keep", cname), i);
			let r = catch(|| {
				rt1.block_on(async {
					convert_tiles_container(reader.boxed(), cp, path.to_str().unwrap()).await?;
					let rd = get_reader(path.to_str().unwrap()).await?;
					let b = rd.get_tile_data(&TileCoord3::new(0, 0, 0)?).await?;
					anyhow::Ok((rd.get_parameters().tile_compression, b.map(|b| b.into_vec())))
				})
			});
			let ok = matches!(&r, Ok(Ok((c, Some(b)))) if *c == t.unwrap_or(s) && indep_dec(*c, b).as_ref() == Some(&p));
			out.oracle(ok, "C04 one-tile conversions back to back", json!({"kind":"one_tile_sequence","src":cname(s),"target":t.map_or("keep", cname)}), json!({"case": key}));
			out.eval(&key, true);
			let _ = std::fs::remove_file(&path);
			n += 1;
		}
	}
	out.count_n("same_blob_sequence_steps", n);
}

// ---------------------------------------------------------------------------------------------
// PMTiles root directory at its size budget (16384 − 127 = 16257 bytes compressed): seeking generator of
// `boundary.rs` (seeded regression C04-12: a root of 16258…16384 bytes overwrote the head of the metadata)
// ---------------------------------------------------------------------------------------------
fn rootb_case(out: &mut Out, args: &Args, rt: &tokio::runtime::Runtime, delta: i64, tiles: &crate::indep_formats::TileMap) {
	let line = format!("C04 rootb {delta}");
	// gzip → uncompressed, so that the stored blob lengths (which determine the directory bytes) are the payload lengths
	let src: Vec<(Coord3, Vec<u8>)> = tiles.iter().map(|(c, p)| (*c, gz_enc(p, 1))).collect();
	let path = target_path(args, &format!("rootb_{delta}"), "pmtiles");
	let reader = MemReader::new(TileFormat::PBF, TileCompression::Gzip, source_tilejson(true), &src);
	let cp = TilesConverterParameters::new(Some(TileCompression::Uncompressed), None, false, false, false);
	let expected: BTreeMap<Coord3, Vec<u8>> = tiles.iter().map(|(c, p)| (*c, p.clone())).collect();
	// a current-thread runtime: the converter's parallel map then completes in submission order (row-major), the order the
	// seeking generator assumed when it measured the directory; the multi-thread runtime is used by the `leaves` case
	let _ = rt;
	let rt1 = tokio::runtime::Builder::new_current_thread().enable_all().build().unwrap();
	let ans = convert_and_check(out, &rt1, &line, "rootb", reader.boxed(), cp, &path, &expected, TileCompression::Uncompressed, true);
	// what the writer really produced: root directory length (header bytes 16..24), leaf directories (48..56)
	let raw = std::fs::read(&path).unwrap_or_default();
	if raw.len() >= 56 {
		let root_len = u64::from_le_bytes(raw[16..24].try_into().unwrap());
		let leaf_len = u64::from_le_bytes(raw[48..56].try_into().unwrap());
		out.extra.insert(format!("rootb_{delta}"), json!({"tiles": tiles.len(), "root_directory_bytes": root_len, "leaf_directory_bytes": leaf_len, "budget": 16257}));
		out.oracle(127 + root_len <= 16384, "C04 rootb: root directory reaches into the metadata", json!({"kind":"rootb_overlap","world":"rootb"}), json!({"case": line, "root_directory_bytes": root_len}));
	}
	out.case(&line, &ans, true);
	cleanup(&path);
}

// ---------------------------------------------------------------------------------------------
// assumed codec laws, tested on the real crates
// ---------------------------------------------------------------------------------------------
fn law_checks(out: &mut Out, args: &Args, rng: &mut Rng) {
	let mut payloads: Vec<(String, Vec<u8>)> = vec![("empty".into(), vec![]), ("one".into(), vec![0x42])];
	for (class, _, p) in payload_classes(args.seed, TileFormat::PBF).list {
		payloads.push((class.to_string(), p));
	}
	for i in 0..args.n(40, 400) {
		let n = match i % 4 {
			0 => rng.range(0, 16),
			1 => rng.range(17, 300),
			2 => rng.range(301, 3000),
			_ => rng.range(3001, 20000),
		} as usize;
		let p = if rng.chance(1, 2) { rng.bytes(n) } else { (0..n).map(|j| ((j / 7) % 5) as u8).collect() };
		payloads.push((format!("rand{n}"), p));
	}
	let mut n_round = 0u64;
	let mut n_prefix = 0u64;
	let mut n_empty = 0u64;
	for c in [TileCompression::Gzip, TileCompression::Brotli] {
		// empty input rejected
		let r = decompress(Blob::new_empty(), &c);
		out.oracle(r.is_err(), "C04 law empty input rejected", json!({"kind":"law_empty","comp":cname(c)}), json!({"comp": cname(c)}));
		n_empty += 1;
		for (name, p) in &payloads {
			// streams: the one versatiles produces, and foreign ones
			let mut streams: Vec<(&str, Vec<u8>)> = vec![("real", compress(Blob::from(p.clone()), &c).unwrap().into_vec())];
			if p.len() <= 20000 {
				streams.push(("foreign", indep_enc(c, p)));
				streams.push(("foreign_fast", if c == TileCompression::Gzip { gz_enc(p, 1) } else { br_enc(p, 1, 16) }));
			}
			for (producer, st) in &streams {
				let d = decompress(Blob::from(st.clone()), &c).ok().map(|b| b.into_vec());
				let d2 = indep_dec(c, st);
				out.oracle(
					d.as_ref() == Some(p) && d2.as_ref() == Some(p),
					"C04 law round trip",
					json!({"kind":"law_roundtrip","comp":cname(c),"producer":producer}),
					json!({"comp": cname(c), "payload": name, "len": p.len()}),
				);
				n_round += 1;
				out.eval(&format!("law rt {} {name} {producer}", cname(c)), true);
				// strict prefixes
				let cuts: Vec<usize> = if st.len() <= 1500 {
					(0..st.len()).collect()
				} else {
					let mut v: Vec<usize> = (0..64).collect();
					v.extend(st.len() - 300..st.len());
					for _ in 0..args.n(60, 400) {
						v.push(rng.below(st.len() as u64) as usize);
					}
					v
				};
				let mut bad: Option<usize> = None;
				for cut in cuts {
					let r = decompress(Blob::from(st[..cut].to_vec()), &c);
					n_prefix += 1;
					if r.is_ok() && bad.is_none() {
						bad = Some(cut);
					}
				}
				out.oracle(
					bad.is_none(),
					"C04 law strict prefix rejected",
					json!({"kind":"law_prefix","comp":cname(c),"producer":producer}),
					json!({"comp": cname(c), "payload": name, "len": p.len(), "stream_len": st.len(), "accepted_cut": bad}),
				);
			}
		}
	}
	out.extra.insert("codec_law_checks".into(), json!({"round_trips": n_round, "strict_prefixes_fed_to_real_decoders": n_prefix, "empty_inputs": n_empty}));
}

fn small_payloads(rng: &mut Rng, n: usize) -> Vec<Vec<u8>> {
	let mut v = vec![vec![], vec![0], vec![0x1f, 0x8b], vec![0xff; 3]];
	// payloads that look compressed (kept short: they travel in the case line)
	v.push(vec![0x1f, 0x8b, 0x08]);
	v.push(vec![0x1f, 0x8b, 0x08, 0x00, 0xde, 0xad, 0xbe, 0xef, 0x01, 0x02]);
	v.push(gz_enc(b"x", 6));
	v.push(compress(Blob::from(b"yy".to_vec()), &TileCompression::Gzip).unwrap().into_vec());
	v.push(br_enc(b"zzz", 5, 22));
	v.push(vec![0x1b, 0x57, 0x00, 0xf8, 0x33]);
	for _ in 0..n {
		let len = rng.range(1, 24) as usize;
		v.push(rng.bytes(len));
	}
	v
}

fn replay_line(out: &mut Out, args: &Args, rt: &tokio::runtime::Runtime, n: &mut usize, line: &str) {
	let t: Vec<&str> = line.split(' ').collect();
	if t.first() != Some(&"C04") {
		return;
	}
	let b = |s: &str| s == "1";
	let tgt = |s: &str| if s == "keep" { None } else { parse_comp(s) };
	match t.as_slice() {
		["C04", "steps", s, d, f] => steps_case(out, parse_comp(s).unwrap(), parse_comp(d).unwrap(), b(f)),
		["C04", "conv", s, tg, f] => conv_case(out, parse_comp(s).unwrap(), tgt(tg), b(f)),
		["C04", "proc", s, d, f, kind, p] => proc_case(out, parse_comp(s).unwrap(), parse_comp(d).unwrap(), b(f), kind, &unhex(p)),
		["C04", "rec", s, d, kind, p] => rec_case(out, parse_comp(s).unwrap(), parse_comp(d).unwrap(), kind, &unhex(p)),
		["C04", "world", kind, fmt, s, tg, f, a, bb, c] => world_case(out, args, rt, kind, fmt, parse_comp(s).unwrap(), tgt(tg), b(f), a.parse().unwrap(), bb.parse().unwrap(), c.parse().unwrap()),
		["C04", "dedup", spec] => dedup_case(out, args, rt, spec),
		["C04", "rootb", d] => {
			// the sets are found by search: replay all of the tier and run the one(s) with that delta
			for (delta, tiles) in crate::boundary::pmtiles_root_boundary_sets(args.thorough()) {
				if delta.to_string() == *d {
					rootb_case(out, args, rt, delta, &tiles);
				}
			}
		}
		["C04", "leaves", s, tg, f] => leaves_case(out, args, rt, parse_comp(s).unwrap(), tgt(tg), b(f)),
		["C04", "stream", s, d, f] => stream_check(out, rt, parse_comp(s).unwrap(), parse_comp(d).unwrap(), b(f)),
		["C04", "e2e", fmt, tf, s, tg, f] => e2e_case(out, args, rt, n, fmt, tf, parse_comp(s).unwrap(), tgt(tg), b(f)),
		_ => {}
	}
}

pub fn run(args: &Args) {
	quiet_panics();
	let mut out = Out::new(&args.out);
	out.rule = "all 18 (src,dst,force) recompressor configurations and all 24 (src,target∈{keep,raw,gzip,brotli},force) converter configurations against the model; process_blob/recompress on valid, empty and truncated blobs of small seeded payloads; end-to-end convert_tiles_container for src × target × force × {versatiles,pmtiles,tar,directory,mbtiles} with payload classes {1 byte, incompressible 70 KiB, compressible 200 KiB, small real tile, duplicates, 999/1000 zero bytes} encoded by a foreign encoder, read back through get_reader (lookup and stream) and decoded with exactly the declared compression by flate2/brotli directly; ; the same adversarial payloads through TileConverter::process_stream for all 18 configurations; one gzip→brotli PMTiles conversion of 16900 irregular tiles whose directory spills into > 16 KiB of leaf directories (metadata and every tile checked); non-trivial = the configuration has to change the encoding (force or src≠declared); distinct by case text".into();
	let rt = runtime();
	let mut n = 0usize;
	if let Some(p) = &args.replay {
		for line in std::fs::read_to_string(p).unwrap().lines() {
			replay_line(&mut out, args, &rt, &mut n, line.trim());
		}
		out.finish();
		return;
	}
	let mut rng = Rng::new(args.seed);
	// A. decision tables, exhaustively
	for s in COMPS {
		for d in COMPS {
			for f in [false, true] {
				steps_case(&mut out, s, d, f);
			}
		}
		for t in [None, Some(COMPS[0]), Some(COMPS[1]), Some(COMPS[2])] {
			for f in [false, true] {
				conv_case(&mut out, s, t, f);
			}
		}
	}
	// B. blob path on valid / empty / truncated blobs
	let pl = small_payloads(&mut rng, args.n(6, 60));
	for s in COMPS {
		for d in COMPS {
			for kind in ["enc", "nil", "cut"] {
				for p in &pl {
					for f in [false, true] {
						proc_case(&mut out, s, d, f, kind, p);
					}
					rec_case(&mut out, s, d, kind, p);
				}
			}
		}
	}
	// C. codec laws on the real crates
	law_checks(&mut out, args, &mut rng);
	// C'. the stream path on its own, all 18 configurations, adversarial payloads
	for s in COMPS {
		for d in COMPS {
			for f in [false, true] {
				stream_check(&mut out, &rt, s, d, f);
			}
		}
	}
	// D0. PMTiles root directory at its budget (16257 bytes) ± delta
	for (delta, tiles) in crate::boundary::pmtiles_root_boundary_sets(args.thorough()) {
		rootb_case(&mut out, args, &rt, delta, &tiles);
	}
	// D'. PMTiles with leaf directories
	leaves_case(&mut out, args, &rt, TileCompression::Gzip, Some(TileCompression::Brotli), false);
	if args.thorough() {
		leaves_case(&mut out, args, &rt, TileCompression::Uncompressed, Some(TileCompression::Gzip), false);
		leaves_case(&mut out, args, &rt, TileCompression::Brotli, None, true);
	}
	// C3. same input, different pipelines, one thread
	same_blob_sequences(&mut out, args);
	// C''. de-duplication layout of the versatiles block writer
	for spec in ["999:1,999:1", "1000:1,1000:1", "999:1,1000:1,999:1", "5:1,5:2,5:1,5:2,5:1", "1:1", "1001:3,17:2,1001:3,17:2"] {
		dedup_case(&mut out, args, &rt, spec);
	}
	for _ in 0..args.n(60, 1500) {
		let spec = gen_dedup_spec(&mut rng);
		dedup_case(&mut out, args, &rt, &spec);
	}
	// D''. worlds
	{
		use TileCompression::*;
		let pairs: [(TileCompression, Option<TileCompression>, bool); 3] = [(Uncompressed, Some(Gzip), false), (Gzip, Some(Brotli), false), (Brotli, None, true)];
		for (i, (s, t, f)) in pairs.iter().enumerate() {
			for (flip, swap) in [(1u8, 0u8), (0, 1), (1, 1)] {
				for bbox in [0u8, 1] {
					for fmt in ["versatiles", "tar"] {
						if !args.thorough() && fmt == "tar" && (i + flip as usize + bbox as usize) % 2 == 0 {
							continue;
						}
						world_case(&mut out, args, &rt, "opts", fmt, *s, *t, *f, flip, swap, bbox);
					}
				}
			}
		}
		for fmt in ["versatiles", "pmtiles", "tar", "mbtiles", "directory"] {
			let (s, t) = if fmt == "mbtiles" { (Uncompressed, Some(Gzip)) } else { (Gzip, Some(Brotli)) };
			world_case(&mut out, args, &rt, "preexist", fmt, s, t, false, 1, 0, 0);
			if fmt != "directory" {
				world_case(&mut out, args, &rt, "preexist", fmt, s, t, false, 2, 0, 0);
			}
			world_case(&mut out, args, &rt, "z31", fmt, s, t, false, 0, 0, 0);
			// (a raw source cannot hold an undecodable tile: every byte string is valid uncompressed data)
			if fmt == "mbtiles" {
				world_case(&mut out, args, &rt, "fault", fmt, Gzip, None, true, 0, 0, 0);
			} else {
				world_case(&mut out, args, &rt, "fault", fmt, s, t, false, 0, 0, 0);
			}
			world_case(&mut out, args, &rt, "fault", fmt, Gzip, None, false, 0, 0, 0);
		}
		for fmt in ["directory", "versatiles", "pmtiles", "tar", "mbtiles"] {
			for a in 1u8..=4 {
				// equal-length outputs need an uncompressed target (mbtiles: gzip is the only vector target)
				if fmt != "mbtiles" {
					world_case(&mut out, args, &rt, "twice", fmt, Gzip, Some(Uncompressed), false, a, 0, 0);
				}
				if fmt == "mbtiles" || fmt == "directory" || args.thorough() {
					world_case(&mut out, args, &rt, "twice", fmt, Uncompressed, Some(Gzip), false, a, 0, 0);
				}
			}
		}
		for a in [0u8, 1] {
			for bb in [0u8, 1] {
				world_case(&mut out, args, &rt, "indep", "versatiles", Gzip, Some(Brotli), false, a, bb, 0);
				world_case(&mut out, args, &rt, "indep", "pmtiles", Brotli, Some(Uncompressed), false, a, bb, 0);
			}
		}
		world_case(&mut out, args, &rt, "many", "mbtiles", Uncompressed, Some(Gzip), false, 1, 0, 0);
		if args.thorough() {
			world_case(&mut out, args, &rt, "many", "tar", Gzip, Some(Brotli), false, 1, 0, 0);
			world_case(&mut out, args, &rt, "many", "versatiles", Brotli, Some(Gzip), true, 1, 0, 0);
		}
	}
	// D. end to end
	for fmt in FMTS {
		for s in COMPS {
			for t in [None, Some(COMPS[0]), Some(COMPS[1]), Some(COMPS[2])] {
				for f in [false, true] {
					e2e_case(&mut out, args, &rt, &mut n, fmt, "pbf", s, t, f);
					if fmt == "mbtiles" || args.thorough() {
						e2e_case(&mut out, args, &rt, &mut n, fmt, "png", s, t, f);
					}
				}
			}
		}
	}
	for n in [
		"checklist 1 (thresholds): PMTiles root directory at 16257 bytes ± {0,1,127,128} (seeking generator boundary.rs); 999/1000-byte duplicates + 998..1001 in the dedup stream (versatiles de-dup limit), 256-block border at zoom 9, 16384-entry / 16 KiB PMTiles root (leaves case, leaf size asserted from the header), 2000-row mbtiles batches (4225-tile world), zoom 31",
		"checklist 2 (faults): undecodable source tile (world fault: must fail when recoding is needed, byte-identical pass-through otherwise); empty / truncated blobs in proc/rec",
		"checklist 3 (payloads): 0 and 1 byte, duplicates within and across blocks, 70 KiB / 200 KiB, undecodable, payloads that are valid streams of another codec",
		"checklist 4 (options): target x force x flip_y x swap_xy x bbox (world opts); override_compression is exercised by C05/C06",
		"checklist 5 (state): output file exists and is longer (garbage / earlier container), non-empty directory (known finding), a second conversion into the same target with the same names (same lengths + other bytes, other lengths, subset, identical) for all five formats, converter object reused, same blob through different pipelines back to back on one thread, one-tile conversions back to back on a current-thread runtime",
		"checklist 6 (order): oracles are keyed by coordinate; small and 200 KiB tiles share a stream; scheduling itself is C14",
		"checklist 7 (HTTP): n.a. (no request surface)",
		"checklist 8 (coordinates): zoom 0, 30, 31 far corner (world z31), block border",
		"checklist 9 (foreign encoders): tiles encoded by flate2/brotli with other parameters; source containers written by indep_formats (world indep)",
		"checklist 10 (two paths): converter lookup path vs stream path vs recompress; process_blob vs process_stream on the same blobs",
		"checklist 11 (fallbacks): `keep` = fall back to the source compression (all e2e targets); metadata defaults are C17's",
	] {
		out.notes.push(n.into());
	}
	out.exhaustive = true;
	out.notes.push("decision tables (18 recompressor and 24 converter configurations) are covered exhaustively; every (format, src, target, force) conversion is run in every tier".into());
	let _ = (Path::new("."), Value::Null);
	out.finish();
}
