//! C15 – tile bounding boxes and pyramids behave as sets; geo conversions.
//! case lines: `C15 <op> …` (see lean/VtModel/BBoxProto.lean)
use crate::common::*;
use serde_json::json;
use std::collections::BTreeSet;
use versatiles_core::types::{GeoBBox, TileBBox, TileBBoxPyramid, TileCoord2, TileCoord3};
use versatiles_core::utils::TransformCoord;

pub fn raw(level: u8, a: u32, b: u32, c: u32, d: u32) -> TileBBox {
	TileBBox { level, x_min: a, y_min: b, x_max: c, y_max: d, max: (1u64 << level).wrapping_sub(1) as u32 }
}
pub fn show(b: &TileBBox) -> String {
	format!("{}:{},{},{},{}", b.level, b.x_min, b.y_min, b.x_max, b.y_max)
}
fn parse_box(s: &str) -> TileBBox {
	let (l, r) = s.split_once(':').unwrap();
	let v: Vec<u32> = r.split(',').map(|t| t.parse().unwrap()).collect();
	raw(l.parse().unwrap(), v[0], v[1], v[2], v[3])
}
fn show_pyr(p: &TileBBoxPyramid) -> String {
	p.level_bbox.iter().map(show).collect::<Vec<_>>().join("/")
}
fn parse_pyr(s: &str) -> TileBBoxPyramid {
	let mut p = TileBBoxPyramid::new_empty();
	for (i, t) in s.split('/').enumerate() {
		p.level_bbox[i] = parse_box(t);
	}
	p
}

/// denotation: the rectangle of coordinates a box stands for (None = empty set)
type Rect = Option<(u64, u64, u64, u64)>;
fn den(b: &TileBBox) -> Rect {
	if b.x_min <= b.x_max && b.y_min <= b.y_max {
		Some((b.x_min as u64, b.y_min as u64, b.x_max as u64, b.y_max as u64))
	} else {
		None
	}
}
fn r_isect(a: Rect, b: Rect) -> Rect {
	let (a, b) = (a?, b?);
	let r = (a.0.max(b.0), a.1.max(b.1), a.2.min(b.2), a.3.min(b.3));
	if r.0 <= r.2 && r.1 <= r.3 {
		Some(r)
	} else {
		None
	}
}
fn r_hull(a: Rect, b: Rect) -> Rect {
	match (a, b) {
		(None, x) | (x, None) => x,
		(Some(a), Some(b)) => Some((a.0.min(b.0), a.1.min(b.1), a.2.max(b.2), a.3.max(b.3))),
	}
}
fn r_count(a: Rect) -> u64 {
	a.map_or(0, |a| (a.2 - a.0 + 1) * (a.3 - a.1 + 1))
}
fn r_set(a: Rect) -> BTreeSet<(u64, u64)> {
	let mut s = BTreeSet::new();
	if let Some(a) = a {
		for y in a.1..=a.3 {
			for x in a.0..=a.2 {
				s.insert((y, x));
			}
		}
	}
	s
}

fn res<T>(r: Result<anyhow::Result<T>, String>, f: impl Fn(&T) -> String) -> String {
	match r {
		Ok(Ok(v)) => f(&v),
		Ok(Err(_)) => "err".into(),
		Err(_) => "panic".into(),
	}
}
fn resp<T>(r: Result<T, String>, f: impl Fn(&T) -> String) -> String {
	match r {
		Ok(v) => f(&v),
		Err(_) => "panic".into(),
	}
}

struct Ctx<'a> {
	out: &'a mut Out,
}

impl Ctx<'_> {
	fn fail(&mut self, kind: &str, case: &str, msg: String, extra: serde_json::Value) {
		let mut sig = json!({"op": kind});
		if let (Some(o), Some(e)) = (sig.as_object_mut(), extra.as_object()) {
			for (k, v) in e {
				o.insert(k.clone(), v.clone());
			}
		}
		self.out.oracle(false, &format!("C15 {kind}: {msg}"), sig, json!({"case": case}));
	}
	fn pass(&mut self) {
		self.out.oracle(true, "", json!(null), json!(null));
	}

	/// run one case line on the implementation; returns the canonical answer and applies the direct oracle
	fn exec(&mut self, line: &str) -> String {
		let t: Vec<&str> = line.split(' ').collect();
		let op = t[1];
		self.out.count(&format!("op_{op}"));
		let n = |i: usize| -> u32 { t[i].parse().unwrap() };
		match op {
			"new" => {
				let (l, a, b, c, d) = (n(2) as u8, n(3), n(4), n(5), n(6));
				let r = catch(|| TileBBox::new(l, a, b, c, d));
				if let Ok(Ok(bx)) = &r {
					if den(bx).is_none() || bx.x_max > bx.max || bx.y_max > bx.max {
						self.fail("new", line, "constructor accepted an empty / out-of-range box".into(), json!({}));
					}
				}
				res(r, show)
			}
			"full" => res(catch(|| TileBBox::new_full(n(2) as u8)), show),
			"empty" => {
				let r = catch(|| TileBBox::new_empty(n(2) as u8));
				if let Ok(Ok(b)) = &r {
					if den(b).is_some() || !b.is_empty() {
						self.fail("empty", line, "new_empty is not empty".into(), json!({}));
					}
				}
				res(r, show)
			}
			"info" => {
				let a = parse_box(t[2]);
				let d = den(&a);
				if a.is_empty() != d.is_none() {
					self.fail("info", line, "is_empty disagrees with the denoted set".into(), json!({}));
				} else if a.count_tiles() != r_count(d) {
					self.fail("info", line, format!("count_tiles {} != |set| {}", a.count_tiles(), r_count(d)), json!({}));
				} else {
					self.pass();
				}
				format!("empty={} w={} h={} n={}", a.is_empty() as u8, a.width(), a.height(), a.count_tiles())
			}
			"isect" | "incl" | "ovl" => {
				let (a, b) = (parse_box(t[2]), parse_box(t[3]));
				let (da, db) = (den(&a), den(&b));
				match op {
					"isect" => {
						let r = catch(|| {
							let mut x = a.clone();
							x.intersect_bbox(&b).map(|_| x)
						});
						if let Ok(Ok(x)) = &r {
							if den(x) != r_isect(da, db) {
								self.fail("isect", line, format!("result {} is not the set intersection", show(x)), json!({}));
							} else {
								self.pass();
							}
						} else if a.level == b.level {
							self.fail("isect", line, "failed on equal levels".into(), json!({}));
						}
						res(r, show)
					}
					"incl" => {
						let r = catch(|| {
							let mut x = a.clone();
							x.include_bbox(&b).map(|_| x)
						});
						if let Ok(Ok(x)) = &r {
							// bounding union; boxes reaching beyond `max` are clamped by the code
							let inside = |d: Rect| d.map_or(true, |d| d.2 <= a.max as u64 && d.3 <= a.max as u64);
							if inside(da) && inside(db) && den(x) != r_hull(da, db) {
								self.fail("incl", line, format!("result {} is not the bounding union", show(x)), json!({}));
							} else {
								self.pass();
							}
						} else if a.level == b.level {
							self.fail("incl", line, "failed on equal levels".into(), json!({}));
						}
						res(r, show)
					}
					_ => {
						let r = catch(|| a.overlaps_bbox(&b));
						if let Ok(Ok(x)) = &r {
							if *x != r_isect(da, db).is_some() {
								self.fail("ovl", line, "overlaps disagrees with set intersection".into(), json!({}));
							} else {
								self.pass();
							}
						}
						res(r, |x| (*x as u8).to_string())
					}
				}
			}
			"has" => {
				let a = parse_box(t[2]);
				let (x, y, z) = (n(3), n(4), n(5) as u8);
				let c2 = a.contains2(&TileCoord2::new(x, y));
				let c3 = TileCoord3::new(x, y, z).map(|c| a.contains3(&c)).unwrap_or(false);
				let exp = den(&a).map_or(false, |d| (x as u64) >= d.0 && (x as u64) <= d.2 && (y as u64) >= d.1 && (y as u64) <= d.3);
				if c2 != exp || c3 != (exp && z == a.level) {
					self.fail("has", line, "containment disagrees with the denoted set".into(), json!({}));
				} else {
					self.pass();
				}
				format!("{}{}", c2 as u8, c3 as u8)
			}
			"inclc" => {
				let mut a = parse_box(t[2]);
				let d0 = den(&a);
				let (x, y) = (n(3), n(4));
				a.include_coord(x, y);
				let exp = r_hull(d0, Some((x as u64, y as u64, x as u64, y as u64)));
				if (x <= a.max && y <= a.max) && d0.map_or(true, |d| d.2 <= a.max as u64 && d.3 <= a.max as u64) && den(&a) != exp {
					self.fail("inclc", line, format!("result {} is not the bounding box", show(&a)), json!({}));
				} else {
					self.pass();
				}
				show(&a)
			}
			"border" => {
				let a = parse_box(t[2]);
				let r = catch(|| {
					let mut x = a.clone();
					x.add_border(n(3), n(4), n(5), n(6));
					x
				});
				resp(r, show)
			}
			"iter" => {
				let a = parse_box(t[2]);
				let r = catch(|| a.iter_coords().map(|c| (c.x, c.y, c.z)).collect::<Vec<_>>());
				if let Ok(v) = &r {
					let exp: Vec<(u64, u64)> = r_set(den(&a)).into_iter().collect(); // sorted by (y, x)
					let got: Vec<(u64, u64)> = v.iter().map(|c| (c.1 as u64, c.0 as u64)).collect();
					if got != exp || v.iter().any(|c| c.2 != a.level) {
						self.fail("iter", line, "iter_coords is not the row-major enumeration of the set".into(), json!({}));
					} else {
						self.pass();
					}
				} else {
					self.fail("iter", line, "panic".into(), json!({}));
				}
				resp(r, |v| if v.is_empty() { "-".into() } else { v.iter().map(|c| format!("{},{}", c.0, c.1)).collect::<Vec<_>>().join(";") })
			}
			"grid" => {
				let a = parse_box(t[2]);
				let size = n(3);
				let r = catch(|| a.iter_bbox_grid(size).collect::<Vec<_>>());
				match &r {
					Ok(cells) if size > 0 => {
						let mut ok = true;
						let mut total = 0u64;
						for (i, c) in cells.iter().enumerate() {
							let Some(d) = den(c) else { ok = false; break };
							total += r_count(Some(d));
							// inside the box, inside one aligned square
							if r_isect(Some(d), den(&a)) != Some(d) || d.0 / size as u64 != d.2 / size as u64 || d.1 / size as u64 != d.3 / size as u64 {
								ok = false;
							}
							for c2 in &cells[i + 1..] {
								if r_isect(Some(d), den(c2)).is_some() {
									ok = false;
								}
							}
						}
						if !ok || total != r_count(den(&a)) {
							self.fail("grid", line, "grid cells are not a partition of the box into aligned squares".into(), json!({}));
						} else {
							self.pass();
						}
					}
					Ok(_) => self.pass(),
					Err(_) => self.fail("grid", line, "panic".into(), json!({})),
				}
				resp(r, |v| if v.is_empty() { "-".into() } else { v.iter().map(show).collect::<Vec<_>>().join(";") })
			}
			"idx" => {
				let a = parse_box(t[2]);
				let (x, y) = (n(3), n(4));
				let r = catch(|| a.get_tile_index2(&TileCoord2::new(x, y)));
				let r3 = catch(|| TileCoord3::new(x, y, a.level).and_then(|c| a.get_tile_index3(&c)));
				let inside = den(&a).map_or(false, |d| (x as u64) >= d.0 && (x as u64) <= d.2 && (y as u64) >= d.1 && (y as u64) <= d.3);
				let exp = den(&a).filter(|_| inside).map(|d| (y as u64 - d.1) * (d.2 - d.0 + 1) + (x as u64 - d.0));
				let got = match &r { Ok(Ok(i)) => Some(*i as u64), _ => None };
				let got3 = match &r3 { Ok(Ok(i)) => Some(*i as u64), _ => None };
				if r.is_err() || got != exp || got3 != exp {
					self.fail("idx", line, format!("tile index {got:?}/{got3:?}, row-major position is {exp:?}"), json!({"big": r_count(den(&a)) >= (1u64 << 32)}));
				} else {
					self.pass();
				}
				res(r, |i| i.to_string())
			}
			"cbi" => {
				let a = parse_box(t[2]);
				let i = n(3);
				let r = catch(|| a.get_coord2_by_index(i));
				let r3 = catch(|| a.get_coord3_by_index(i));
				let exp = den(&a).filter(|d| (i as u64) < r_count(Some(*d))).map(|d| (d.0 + i as u64 % (d.2 - d.0 + 1), d.1 + i as u64 / (d.2 - d.0 + 1)));
				let got = match &r { Ok(Ok(c)) => Some((c.x as u64, c.y as u64)), _ => None };
				let got3 = match &r3 { Ok(Ok(c)) => Some((c.x as u64, c.y as u64)), _ => None };
				if r.is_err() || got != exp || got3 != exp {
					self.fail("cbi", line, format!("coordinate {got:?}/{got3:?}, expected {exp:?}"), json!({"big": r_count(den(&a)) >= (1u64 << 32)}));
				} else {
					self.pass();
				}
				res(r, |c| format!("{},{}", c.x, c.y))
			}
			"flip" | "swap" => {
				let a = parse_box(t[2]);
				let flip = op == "flip";
				let r = catch(|| {
					let mut x = a.clone();
					if flip { x.flip_y() } else { x.swap_xy() }
					let mut y = x.clone();
					if flip { y.flip_y() } else { y.swap_xy() }
					(x, y)
				});
				if let Ok((x, y)) = &r {
					let m = a.max as u64;
					let exp = den(&a).map(|d| if flip { (d.0, m - d.3, d.2, m - d.1) } else { (d.1, d.0, d.3, d.2) });
					if den(x) != exp || den(y) != den(&a) {
						self.fail(op, line, "transform is not the image of the set / not an involution".into(), json!({}));
					} else {
						self.pass();
					}
				} else if den(&a).map_or(true, |d| d.3 <= a.max as u64) {
					self.fail(op, line, "panic on an in-range box".into(), json!({}));
				}
				resp(r, |p| show(&p.0))
			}
			"scale" => {
				let a = parse_box(t[2]);
				let s = n(3);
				resp(catch(|| { let mut x = a.clone(); x.scale_down(s); x }), show)
			}
			"shift" => { let mut a = parse_box(t[2]); a.shift_by(n(3), n(4)); show(&a) }
			"sub" => { let mut a = parse_box(t[2]); a.subtract(n(3), n(4)); show(&a) }
			"setempty" => {
				let mut a = parse_box(t[2]);
				a.set_empty();
				if den(&a).is_some() { self.fail("setempty", line, "not empty".into(), json!({})); }
				show(&a)
			}
			"cflip" => {
				let (x, y, z) = (n(2), n(3), n(4) as u8);
				let r = catch(|| { let mut c = TileCoord3::new(x, y, z).unwrap(); c.flip_y(); c });
				resp(r, |c| format!("{},{},{}", c.x, c.y, c.z))
			}
			"p_full" => show_pyr(&TileBBoxPyramid::new_full(n(2) as u8)),
			"p_empty" => show_pyr(&TileBBoxPyramid::new_empty()),
			"p_isect" | "p_inclp" | "p_eq" => {
				let (p, q) = (parse_pyr(t[2]), parse_pyr(t[3]));
				if op == "p_eq" {
					let e = p == q;
					let exp = (0..32).all(|i| den(&p.level_bbox[i]) == den(&q.level_bbox[i]));
					if e != exp { self.fail("p_eq", line, "pyramid equality is not equality of the denoted sets".into(), json!({})); } else { self.pass(); }
					return (e as u8).to_string();
				}
				let r = catch(|| { let mut x = p.clone(); if op == "p_isect" { x.intersect(&q) } else { x.include_bbox_pyramid(&q) } x });
				if let Ok(x) = &r {
					let ok = (0..32).all(|i| {
						let (a, b) = (den(&p.level_bbox[i]), den(&q.level_bbox[i]));
						den(&x.level_bbox[i]) == if op == "p_isect" { r_isect(a, b) } else { r_hull(a, b) }
					});
					if !ok { self.fail(op, line, "not the per-level set operation".into(), json!({})); } else { self.pass(); }
				} else { self.fail(op, line, "panic".into(), json!({})); }
				resp(r, show_pyr)
			}
			"p_inclb" => {
				let (p, b) = (parse_pyr(t[2]), parse_box(t[3]));
				let r = catch(|| { let mut x = p.clone(); x.include_bbox(&b); x });
				if let Ok(x) = &r {
					let ok = (0..32).all(|i| den(&x.level_bbox[i]) == if i == b.level as usize { r_hull(den(&p.level_bbox[i]), den(&b)) } else { den(&p.level_bbox[i]) });
					if !ok { self.fail(op, line, "not the bounding union on that level only".into(), json!({})); } else { self.pass(); }
				}
				resp(r, show_pyr)
			}
			"p_inclc" => {
				let p = parse_pyr(t[2]);
				let (x, y, z) = (n(3), n(4), n(5) as u8);
				let r = catch(|| { let mut q = p.clone(); q.include_coord(&TileCoord3::new(x, y, z).unwrap()); q });
				if let Ok(q) = &r {
					if !q.contains_coord(&TileCoord3::new(x, y, z).unwrap()) && x <= q.level_bbox[z as usize].max && y <= q.level_bbox[z as usize].max {
						self.fail(op, line, "included coordinate is not contained".into(), json!({}));
					} else { self.pass(); }
				}
				resp(r, show_pyr)
			}
			"p_zmin" | "p_zmax" => {
				let mut p = parse_pyr(t[2]);
				let p0 = p.clone();
				let z = n(3) as u8;
				if op == "p_zmin" { p.set_zoom_min(z) } else { p.set_zoom_max(z) }
				let ok = (0..32usize).all(|i| {
					let cut = if op == "p_zmin" { (i as u8) < z } else { (i as u8) > z };
					den(&p.level_bbox[i]) == if cut { None } else { den(&p0.level_bbox[i]) }
				});
				if !ok { self.fail(op, line, "zoom limit is not per-level emptying".into(), json!({})); } else { self.pass(); }
				show_pyr(&p)
			}
			"p_info" => {
				let p = parse_pyr(t[2]);
				let o = |v: Option<u8>| v.map_or("-".to_string(), |v| v.to_string());
				let nonempty: Vec<usize> = (0..32).filter(|i| den(&p.level_bbox[*i]).is_some()).collect();
				let cnt: u64 = (0..32).map(|i| r_count(den(&p.level_bbox[i]))).sum();
				if p.get_zoom_min().map(|v| v as usize) != nonempty.first().copied() || p.get_zoom_max().map(|v| v as usize) != nonempty.last().copied() || p.count_tiles() != cnt || p.is_empty() != nonempty.is_empty() || p.iter_levels().count() != nonempty.len() {
					self.fail(op, line, "pyramid summary disagrees with the per-level sets".into(), json!({}));
				} else { self.pass(); }
				format!("zmin={} zmax={} n={} empty={} levels={}", o(p.get_zoom_min()), o(p.get_zoom_max()), p.count_tiles(), p.is_empty() as u8, p.iter_levels().count())
			}
			"p_has" => {
				let p = parse_pyr(t[2]);
				let (x, y, z) = (n(3), n(4), n(5) as u8);
				let c = p.contains_coord(&TileCoord3::new(x, y, z).unwrap());
				let exp = den(&p.level_bbox[z as usize]).map_or(false, |d| (x as u64) >= d.0 && (x as u64) <= d.2 && (y as u64) >= d.1 && (y as u64) <= d.3);
				if c != exp { self.fail(op, line, "containment".into(), json!({})); } else { self.pass(); }
				(c as u8).to_string()
			}
			"p_ovl" => {
				let (p, b) = (parse_pyr(t[2]), parse_box(t[3]));
				let c = p.overlaps_bbox(&b);
				let exp = r_isect(den(&p.level_bbox[b.level as usize]), den(&b)).is_some();
				if c != exp { self.fail(op, line, "overlap".into(), json!({})); } else { self.pass(); }
				(c as u8).to_string()
			}
			"p_flip" | "p_swap" => {
				let p = parse_pyr(t[2]);
				let r = catch(|| { let mut q = p.clone(); if op == "p_flip" { q.flip_y() } else { q.swap_xy() } q });
				resp(r, show_pyr)
			}
			"p_border" => {
				let p = parse_pyr(t[2]);
				let r = catch(|| { let mut q = p.clone(); q.add_border(n(3), n(4), n(5), n(6)); q });
				resp(r, show_pyr)
			}
			"p_geo" => {
				let p = parse_pyr(t[2]);
				let f = |i: usize| f64::from_bits(t[i].parse::<u64>().unwrap());
				let g = GeoBBox(f(3), f(4), f(5), f(6));
				let valid = g.0 >= -180.0 && g.1 >= -90.0 && g.2 <= 180.0 && g.3 <= 90.0 && g.0 <= g.2 && g.1 <= g.3;
				let r = catch(|| { let mut q = p.clone(); q.intersect_geo_bbox(&g); q });
				match &r {
					Ok(q) => {
						// per level: the set intersection with the tile box of the geo box at that level
						let ok = (0..32usize).all(|z| match TileBBox::from_geo(z as u8, &g) {
							Ok(gb) => den(&q.level_bbox[z]) == r_isect(den(&p.level_bbox[z]), den(&gb)),
							Err(_) => false,
						});
						if !ok { self.fail("p_geo", line, "intersect_geo_bbox is not the per-level intersection with from_geo(level, box)".into(), json!({})); } else { self.pass(); }
					}
					Err(_) => { if valid { self.fail("p_geo", line, "panic on a valid geo box".into(), json!({"kind": "panic"})); } else { self.pass(); } }
				}
				resp(r, show_pyr)
			}
			"g_from" => {
				let z = n(2) as u8;
				let f = |i: usize| f64::from_bits(t[i].parse::<u64>().unwrap());
				let g = GeoBBox(f(3), f(4), f(5), f(6));
				let valid = g.0 >= -180.0 && g.1 >= -90.0 && g.2 <= 180.0 && g.3 <= 90.0 && g.0 <= g.2 && g.1 <= g.3;
				let r = catch(|| TileBBox::from_geo(z, &g));
				match &r {
					Ok(Ok(b)) => {
						// covers the geo box up to the 1e-6 tile guard (exact Mercator position computed here in f64)
						let zoom = (1u64 << z) as f64;
						let fx = |lon: f64| zoom * (lon / 360.0 + 0.5);
						let fy = |lat: f64| zoom * (0.5 - 0.5 * (lat * std::f64::consts::PI / 360.0 + std::f64::consts::PI / 4.0).tan().ln() / std::f64::consts::PI);
						let clampv = |v: f64| v.max(0.0).min(zoom);
						let eps = 2e-6 + zoom * 1e-12;
						let okx = clampv(fx(g.0)) >= b.x_min as f64 - eps && clampv(fx(g.2)) <= b.x_max as f64 + 1.0 + eps;
						let oky = clampv(fy(g.3)) >= b.y_min as f64 - eps && clampv(fy(g.1)) <= b.y_max as f64 + 1.0 + eps;
						if !valid { self.fail("g_from", line, "invalid geo box accepted".into(), json!({"kind": "accept-invalid"})); }
						else if den(b).is_none() { self.fail("g_from", line, "valid geo box mapped to an empty tile box".into(), json!({"kind": "empty"})); }
						else if !okx || !oky { self.fail("g_from", line, format!("tile box {} does not cover the geo box", show(b)), json!({"kind": "cover", "level": z})); }
						else { self.pass(); }
					}
					Ok(Err(_)) => { if valid { self.fail("g_from", line, "valid geo box rejected".into(), json!({"kind": "reject-valid", "level": z})); } else { self.pass(); } }
					Err(_) => self.fail("g_from", line, "panic".into(), json!({"kind": "panic"})),
				}
				res(r, show)
			}
			"g_coord" => {
				let z = n(2) as u8;
				let f = |i: usize| f64::from_bits(t[i].parse::<u64>().unwrap());
				res(catch(|| TileCoord2::from_geo(f(3), f(4), z, t[5] == "1")), |c| format!("{},{}", c.x, c.y))
			}
			"g_rt" => {
				let a = parse_box(t[2]);
				let r = catch(|| TileBBox::from_geo(a.level, &a.as_geo_bbox()));
				// the round-trip law is about boxes that denote tiles: non-empty and inside the level
				let applicable = den(&a).map_or(false, |d| d.2 <= a.max as u64 && d.3 <= a.max as u64);
				match &r {
					_ if !applicable => {}
					Ok(Ok(b)) if b == &a => self.pass(),
					Ok(Ok(b)) => self.fail("geo_roundtrip", line, format!("from_geo(as_geo_bbox(b)) = {} ≠ b", show(b)), json!({"level": a.level})),
					Ok(Err(_)) => self.fail("geo_roundtrip", line, "from_geo(as_geo_bbox(b)) failed".into(), json!({"level": a.level, "kind": "err"})),
					Err(_) => self.fail("geo_roundtrip", line, "panic".into(), json!({"level": a.level, "kind": "panic"})),
				}
				res(r, show)
			}
			"inc3" => {
				let a = parse_box(t[2]);
				let (x, y, z) = (n(3), n(4), n(5) as u8);
				let r = catch(|| { let mut b = a.clone(); TileCoord3::new(x, y, z).and_then(|c| b.include_coord3(&c)).map(|_| b) });
				match &r {
					Ok(Ok(b)) => {
						let want = r_hull(den(&a), Some((x as u64, y as u64, x as u64, y as u64)));
						if z != a.level { self.fail(op, line, "a coordinate of another level was included".into(), json!({})); }
						else if den(b) != want { self.fail(op, line, "result is not the bounding box of the old set and the coordinate".into(), json!({})); }
						else { self.pass(); }
					}
					Ok(Err(_)) => { if z == a.level && z <= 31 { self.fail(op, line, "coordinate of the box's own level rejected".into(), json!({})); } else { self.pass(); } }
					Err(_) => self.fail(op, line, "panic".into(), json!({"kind": "panic"})),
				}
				res(r, show)
			}
			"ipyr" => {
				let (a, p) = (parse_box(t[2]), parse_pyr(t[3]));
				let r = catch(|| { let mut b = a.clone(); b.intersect_pyramid(&p).map(|_| b) });
				match &r {
					Ok(Ok(b)) => {
						if den(b) != r_isect(den(&a), den(&p.level_bbox[a.level as usize])) { self.fail(op, line, "intersect_pyramid is not the set intersection with the pyramid's level".into(), json!({})); } else { self.pass(); }
					}
					_ => self.fail(op, line, "intersect_pyramid failed on a box of a level the pyramid has".into(), json!({"kind": "fail"})),
				}
				res(r, show)
			}
			"cbi3" => {
				let a = parse_box(t[2]);
				let i = n(3);
				let r = catch(|| a.get_coord3_by_index(i));
				match &r {
					Ok(Ok(c)) => {
						let back = a.get_tile_index3(c).ok();
						let nth = if r_count(den(&a)) <= 100_000 { a.iter_coords().nth(i as usize) } else { Some(*c) };
						if c.z != a.level || !a.contains3(c) { self.fail(op, line, "coordinate outside the box".into(), json!({})); }
						else if back != Some(i as usize) { self.fail(op, line, format!("get_tile_index3(get_coord3_by_index({i})) = {back:?}"), json!({})); }
						else if nth != Some(*c) { self.fail(op, line, "not the i-th enumerated coordinate".into(), json!({})); }
						else { self.pass(); }
					}
					Ok(Err(_)) => { if (i as u64) < r_count(den(&a)) { self.fail(op, line, "index inside the box rejected".into(), json!({})); } else { self.pass(); } }
					Err(_) => { if den(&a).map_or(false, |d| d.2 <= a.max as u64 && d.3 <= a.max as u64) { self.fail(op, line, "panic".into(), json!({"kind": "panic"})); } else { self.pass(); } }
				}
				res(r, |c| format!("{},{},{}", c.x, c.y, c.z))
			}
			"valid" => {
				let c = TileCoord3 { x: n(2), y: n(3), z: n(4) as u8 };
				self.pass();
				(c.is_valid() as u8).to_string()
			}
			"sidx" => {
				let c = TileCoord3 { x: n(2), y: n(3), z: n(4) as u8 };
				let r = catch(|| c.get_sort_index());
				if let Ok(i) = &r {
					// slot law: all lower levels come first, then row-major inside the level
					let z = c.z as u32;
					if z <= 31 && (c.x as u64) < (1u64 << z) && (c.y as u64) < (1u64 << z) {
						let below: u128 = (0..z).map(|l| 1u128 << (2 * l)).sum();
						let want = below + ((c.y as u128) << z) + c.x as u128;
						if *i as u128 != want { self.fail(op, line, format!("sort index {i}, position in level-major row-major order {want}"), json!({})); } else { self.pass(); }
					} else { self.pass(); }
				} else if c.z <= 31 { self.fail(op, line, "panic on a coordinate TileCoord3::new accepts".into(), json!({"kind": "panic"})); } else { self.pass(); }
				resp(r, |i| i.to_string())
			}
			"p_good" => {
				let p = parse_pyr(t[2]);
				let o = |v: Option<u8>| v.map_or("-".to_string(), |v| v.to_string());
				let good = p.get_good_zoom();
				let want = (0..32usize).rev().find(|z| r_count(den(&p.level_bbox[*z])) > 10).map(|z| z as u8);
				let cz = catch(|| p.get_geo_center().map(|c| c.2));
				let nonempty: Vec<u8> = (0..32u8).filter(|i| den(&p.level_bbox[*i as usize]).is_some()).collect();
				let in_range = nonempty.iter().all(|z| { let b = &p.level_bbox[*z as usize]; b.x_max <= b.max && b.y_max <= b.max });
				let mut czs = "panic".to_string();
				let mut bad: Option<String> = None;
				if good != want { bad = Some(format!("get_good_zoom {good:?}, highest level with more than ten tiles {want:?}")); }
				match &cz {
					Ok(c) => {
						czs = o(*c);
						match (c, nonempty.first(), nonempty.last()) {
							(None, None, _) => {}
							(Some(c), Some(lo), Some(hi)) if c >= lo && c <= hi && *c == (*lo + 2).min(*hi) => {}
							_ => bad = Some(format!("centre zoom {c:?} for covered levels {:?}..{:?}", nonempty.first(), nonempty.last())),
						}
					}
					Err(_) => { if in_range { bad = Some("get_geo_center panicked".into()); } }
				}
				match bad { Some(m) => self.fail(op, line, m, json!({})), None => self.pass() }
				format!("good={} czoom={}", o(good), czs)
			}
			"p_fromgeo" => {
				let (zmin, zmax) = (n(2) as u8, n(3) as u8);
				let f = |i: usize| f64::from_bits(t[i].parse::<u64>().unwrap());
				let g = GeoBBox(f(4), f(5), f(6), f(7));
				let valid = g.0 >= -180.0 && g.1 >= -90.0 && g.2 <= 180.0 && g.3 <= 90.0 && g.0 <= g.2 && g.1 <= g.3;
				let r = catch(|| TileBBoxPyramid::from_geo_bbox(zmin, zmax, &g));
				match &r {
					Ok(p) => {
						let ok = (0..32u8).all(|z| {
							let d = den(&p.level_bbox[z as usize]);
							if z < zmin || z > zmax { d.is_none() } else { TileBBox::from_geo(z, &g).map_or(false, |b| den(&b) == d && d.is_some()) }
						});
						if !ok { self.fail(op, line, "from_geo_bbox is not from_geo per level inside the zoom range and empty outside".into(), json!({})); } else { self.pass(); }
					}
					Err(_) => { if valid && zmax <= 31 { self.fail(op, line, "panic on a valid geo box".into(), json!({"kind": "panic"})); } else { self.pass(); } }
				}
				resp(r, show_pyr)
			}
			_ => panic!("unknown op {op}"),
		}
	}

	fn case(&mut self, line: String, nontrivial: bool) {
		let ans = self.exec(&line);
		self.out.case(&line, &ans, nontrivial);
	}
}

/// all boxes at a level: valid ones plus empty encodings
fn all_boxes(level: u8) -> Vec<TileBBox> {
	let m = (1u32 << level) - 1;
	let mut v = vec![];
	for a in 0..=m { for b in 0..=m { for c in a..=m { for d in b..=m { v.push(raw(level, a, b, c, d)); } } } }
	v.push(TileBBox::new_empty(level).unwrap());
	v.push(raw(level, 1, 1, 0, 0));
	if m >= 1 {
		v.push(raw(level, m, 0, 0, m)); // x-empty only
		v.push(raw(level, 0, m, m, 0)); // y-empty only
	}
	v
}

fn rand_box(rng: &mut Rng, level: u8) -> TileBBox {
	let m = ((1u64 << level) - 1) as u32;
	let border = [0u32, 1, 255, 256, 257, m, m.saturating_sub(1), m / 2, m / 2 + 1];
	let mut pick = |rng: &mut Rng| -> u32 {
		let v = if rng.chance(1, 2) { *rng.pick(&border) } else { rng.below(m as u64 + 1) as u32 };
		v.min(m)
	};
	match rng.below(12) {
		0 => TileBBox::new_empty(level).unwrap(),
		1 => raw(level, 1, 1, 0, 0),
		2 => { let (a, b, c, d) = (pick(rng), pick(rng), pick(rng), pick(rng)); raw(level, a, b, c, d) } // maybe empty
		_ => { let (a, b, c, d) = (pick(rng), pick(rng), pick(rng), pick(rng)); raw(level, a.min(c), b.min(d), a.max(c), b.max(d)) }
	}
}

fn nontrivial_pair(a: &TileBBox, b: &TileBBox) -> bool {
	let (da, db) = (den(a), den(b));
	match (da, db) {
		(Some(_), Some(_)) => { let i = r_isect(da, db); i != da && i != db }
		_ => true,
	}
}

fn bits(f: f64) -> u64 { f.to_bits() }

pub fn run(args: &Args) {
	quiet_panics();
	let mut out = Out::new(&args.out);
	out.rule = "boxes: every box (valid + all empty encodings) at zoom 0..2 × all pairs × {isect, incl, ovl} and every unary op (thorough: zoom 3 unary + 10^5 sampled pairs); seeded boxes up to zoom 31 with border coordinates 0,1,255,256,2^z-1; grid sizes 1,2,3,32,256,2^z,2^31; pyramids with mixed empty encodings; geo boxes: world, poles, zero-area, on/near tile borders (±k·1e-6 tile), random; round trips of sampled boxes at every zoom; include_coord3 / intersect_pyramid / get_coord3_by_index / is_valid / get_sort_index (corners of every level, z up to 255) / get_good_zoom with levels of 9..12 tiles / centre zoom / from_geo_bbox with zoom ranges incl. reversed and > 31; from_geo_bbox / intersect_geo_bbox with edges on or within ±1e-9…1e-5 tile of a coarse (zoom 1..10) tile border over zoom ranges up to 31. non-trivial = (pair) both non-empty and neither contains the other, or an empty encoding involved; (unary) box non-empty and not a single tile; distinct by case text".into();
	let mut cx = Ctx { out: &mut out };
	if let Some(p) = &args.replay {
		for line in std::fs::read_to_string(p).unwrap().lines() {
			if line.starts_with("C15 ") { cx.case(line.to_string(), true); }
		}
		out.finish();
		return;
	}
	let mut rng = Rng::new(args.seed);
	let unary_nt = |b: &TileBBox| r_count(den(b)) > 1;

	// --- exhaustive small zooms
	let max_pair_level = 2u8;
	let max_unary_level = if args.thorough() { 3 } else { 2 };
	for level in 0..=max_unary_level {
		let boxes = all_boxes(level);
		for a in &boxes {
			let s = show(a);
			let nt = unary_nt(a);
			for op in ["info", "iter", "flip", "swap", "setempty"] { cx.case(format!("C15 {op} {s}"), nt); }
			for size in [1u32, 2, 3, 4, 1 << level, 256] { cx.case(format!("C15 grid {s} {size}"), nt); }
			let m = (1u32 << level) - 1;
			for y in 0..=m.min(3) + 1 { for x in 0..=m.min(3) + 1 {
				cx.case(format!("C15 idx {s} {x} {y}"), nt);
				if level <= 2 { cx.case(format!("C15 has {s} {x} {y} {level}"), nt); cx.case(format!("C15 inclc {s} {x} {y}"), nt); }
			} }
			for i in 0..=(r_count(den(a)).min(17) as u32) { cx.case(format!("C15 cbi {s} {i}"), nt); }
			cx.case(format!("C15 g_rt {s}"), nt);
		}
		if level <= max_pair_level {
			for a in &boxes { for b in &boxes {
				let nt = nontrivial_pair(a, b);
				for op in ["isect", "incl", "ovl"] { cx.case(format!("C15 {op} {} {}", show(a), show(b)), nt); }
			} }
		}
	}
	cx.out.exhaustive = false;
	// constructors
	for l in [0u32, 1, 5, 31, 32, 40] {
		cx.case(format!("C15 full {l}"), true);
		cx.case(format!("C15 empty {l}"), true);
		let m = if l <= 31 { ((1u64 << l) - 1) as u32 } else { 7 };
		for (a, b, c, d) in [(0, 0, m, m), (0, 0, m.wrapping_add(1), m), (1, 0, 0, 0), (0, 1, 0, 0), (m, m, m, m)] {
			cx.case(format!("C15 new {l} {a} {b} {c} {d}"), true);
		}
	}
	// level mismatch
	cx.case("C15 isect 3:1,1,2,2 4:1,1,2,2".into(), true);
	cx.case("C15 incl 3:1,1,2,2 4:1,1,2,2".into(), true);
	cx.case("C15 ovl 3:1,1,2,2 4:1,1,2,2".into(), true);

	// --- sampled boxes up to zoom 31
	let n = args.n(4000, 60000);
	for i in 0..n {
		let level = if i % 3 == 0 { rng.range(3, 12) } else { rng.range(0, 31) } as u8;
		let a = rand_box(&mut rng, level);
		let b = rand_box(&mut rng, level);
		let s = show(&a);
		let nt = nontrivial_pair(&a, &b);
		for op in ["isect", "incl", "ovl"] { cx.case(format!("C15 {op} {s} {}", show(&b)), nt); }
		cx.case(format!("C15 info {s}"), unary_nt(&a));
		cx.case(format!("C15 flip {s}"), unary_nt(&a));
		cx.case(format!("C15 swap {s}"), unary_nt(&a));
		let m = ((1u64 << level) - 1) as u32;
		// index conversions at corners and random interior points (also boxes with ≥ 2^32 tiles)
		if let Some(d) = den(&a) {
			for (x, y) in [(d.0, d.1), (d.2, d.3), (d.0, d.3), (d.2, d.1), (rng.range(d.0, d.2), rng.range(d.1, d.3))] {
				cx.case(format!("C15 idx {s} {x} {y}"), true);
			}
			let cnt = r_count(Some(d));
			for i in [0u64, 1, cnt / 2, cnt.saturating_sub(1), cnt, rng.below(cnt.max(1))] {
				if i < (1 << 32) { cx.case(format!("C15 cbi {s} {i}"), true); }
			}
		}
		cx.case(format!("C15 idx {s} {} {}", rng.below(m as u64 + 1), rng.below(m as u64 + 1)), false);
		cx.case(format!("C15 has {s} {} {} {}", rng.below(m as u64 + 1), rng.below(m as u64 + 1), level), false);
		cx.case(format!("C15 inclc {s} {} {}", rng.below(m as u64 + 1), rng.below(m as u64 + 1)), unary_nt(&a));
		// grids: only when the number of cells stays small
		for size in [1u32, 2, 3, 32, 256, 1000, 1 << level.min(31), 1 << 31, u32::MAX] {
			// number of meta cells the code walks, computed from the raw fields: an empty encoding can
			// scale down to a NON-empty meta box (e.g. x: 5..3 with size 8 -> 0..0) with a huge other axis
			let span = |lo: u32, hi: u32| -> u64 { let (l, h) = ((lo / size) as u64, (hi / size) as u64); if h >= l { h - l + 1 } else { 0 } };
			let cells = span(a.x_min, a.x_max) * span(a.y_min, a.y_max);
			if cells <= 4096 { cx.case(format!("C15 grid {s} {size}"), den(&a).is_some() && cells > 1); }
		}
		if r_count(den(&a)) <= 64 { cx.case(format!("C15 iter {s}"), unary_nt(&a)); }
		if i % 4 == 0 {
			cx.case(format!("C15 scale {s} {}", *rng.pick(&[0u32, 1, 2, 256, 1000])), false);
			cx.case(format!("C15 shift {s} {} {}", rng.below(300), *rng.pick(&[0u32, 5, u32::MAX])), false);
			cx.case(format!("C15 sub {s} {} {}", rng.below(300), *rng.pick(&[0u32, 5, u32::MAX])), false);
			cx.case(format!("C15 border {s} {} {} {} {}", rng.below(4), rng.below(300), *rng.pick(&[0u32, 1, 256, u32::MAX]), rng.below(4)), false);
			cx.case(format!("C15 cflip {} {} {}", rng.below(m as u64 + 1), *rng.pick(&[0u32, m, m / 2, m.saturating_add(1).min(u32::MAX)]), level), false);
		}
		cx.case(format!("C15 g_rt {s}"), unary_nt(&a));
	}
	// single tiles at every zoom (round trip)
	for level in 0..=31u8 {
		let m = ((1u64 << level) - 1) as u32;
		for _ in 0..args.n(40, 400) {
			let (x, y) = (rng.below(m as u64 + 1) as u32, rng.below(m as u64 + 1) as u32);
			cx.case(format!("C15 g_rt {level}:{x},{y},{x},{y}"), true);
		}
		cx.case(format!("C15 g_rt {level}:0,0,{m},{m}"), true);
	}

	// --- pyramids
	let np = args.n(300, 3000);
	for _ in 0..np {
		let mk = |rng: &mut Rng| -> TileBBoxPyramid {
			let mut p = if rng.chance(1, 3) { TileBBoxPyramid::new_full(rng.below(12) as u8) } else { TileBBoxPyramid::new_empty() };
			for _ in 0..rng.below(6) {
				let l = rng.below(32) as u8;
				p.level_bbox[l as usize] = rand_box(rng, l);
			}
			p
		};
		let (p, q) = (mk(&mut rng), mk(&mut rng));
		let (sp, sq) = (show_pyr(&p), show_pyr(&q));
		cx.case(format!("C15 p_isect {sp} {sq}"), true);
		cx.case(format!("C15 p_inclp {sp} {sq}"), true);
		cx.case(format!("C15 p_eq {sp} {sq}"), true);
		cx.case(format!("C15 p_eq {sp} {sp}"), true);
		{
			// the same sets, other encodings of the empty levels (constructor form, set_empty form, one axis or both inverted)
			let mut q2 = p.clone();
			for l in 0..32usize {
				if den(&q2.level_bbox[l]).is_none() {
					let m = ((1u64 << l) - 1) as u32;
					q2.level_bbox[l] = match rng.below(6) {
						0 => raw(l as u8, m.wrapping_add(1), m.wrapping_add(1), 0, 0),
						1 => raw(l as u8, 1, 1, 0, 0),
						2 => raw(l as u8, 1, 0, 0, m),         // x inverted only
						3 => raw(l as u8, 0, 1, m, 0),         // y inverted only
						4 => raw(l as u8, rng.range(1, 9) as u32, rng.below(3) as u32, 0, rng.below(3) as u32),
						_ => q2.level_bbox[l].clone(),
					};
				}
			}
			let sq2 = show_pyr(&q2);
			cx.case(format!("C15 p_eq {sp} {sq2}"), true);
			cx.case(format!("C15 p_eq {sq2} {sp}"), true);
			cx.case(format!("C15 p_info {sq2}"), true);
			// and empties as operations leave them: zoom limits and intersections with disjoint boxes
			let mut a = TileBBoxPyramid::new_full(rng.range(2, 8) as u8);
			let zcut = rng.below(5) as u8;
			let mut b = a.clone();
			a.set_zoom_max(zcut);
			for l in (zcut as usize + 1)..32 { b.level_bbox[l] = TileBBox::new_empty(l as u8).unwrap(); }
			cx.case(format!("C15 p_eq {} {}", show_pyr(&a), show_pyr(&b)), true);
			let mut c = TileBBoxPyramid::new_full(5);
			let mut d = c.clone();
			let lv = rng.range(1, 5) as usize;
			let _ = c.level_bbox[lv].intersect_bbox(&raw(lv as u8, 0, 0, 0, 0));
			let _ = c.level_bbox[lv].intersect_bbox(&raw(lv as u8, 1, 0, 1, 0)); // disjoint on x only: leaves min > max on one axis
			d.level_bbox[lv].set_empty();
			cx.case(format!("C15 p_eq {} {}", show_pyr(&c), show_pyr(&d)), true);
		}
		cx.case(format!("C15 p_info {sp}"), true);
		let l = rng.below(32) as u8;
		let b = rand_box(&mut rng, l);
		cx.case(format!("C15 p_inclb {sp} {}", show(&b)), true);
		cx.case(format!("C15 p_ovl {sp} {}", show(&b)), true);
		let m = ((1u64 << l) - 1) as u32;
		let (x, y) = (rng.below(m as u64 + 1), rng.below(m as u64 + 1));
		cx.case(format!("C15 p_inclc {sp} {x} {y} {l}"), true);
		cx.case(format!("C15 p_has {sp} {x} {y} {l}"), true);
		cx.case(format!("C15 p_zmin {sp} {}", rng.below(34)), true);
		cx.case(format!("C15 p_zmax {sp} {}", rng.below(34)), true);
		cx.case(format!("C15 p_flip {sp}"), true);
		cx.case(format!("C15 p_swap {sp}"), true);
		cx.case(format!("C15 p_border {sp} {} {} {} {}", rng.below(3), rng.below(3), rng.below(300), rng.below(3)), true);
		{
			// geographic clipping of pyramids that start above zoom 0 / have zoom gaps / mixed empties
			let (a, b) = (rng.below(360_000_000) as f64 / 1e6 - 180.0, rng.below(360_000_000) as f64 / 1e6 - 180.0);
			let (c, d) = (rng.below(170_000_000) as f64 / 1e6 - 85.0, rng.below(170_000_000) as f64 / 1e6 - 85.0);
			let mut pz = TileBBoxPyramid::new_full(rng.range(3, 12) as u8);
			pz.set_zoom_min(rng.below(4) as u8);
			if rng.chance(1, 2) { let gap = rng.range(1, 6) as usize; pz.level_bbox[gap].set_empty(); }
			for spx in [&sp, &show_pyr(&pz)] {
				cx.case(format!("C15 p_geo {spx} {} {} {} {}", bits(a.min(b)), bits(c.min(d)), bits(a.max(b)), bits(c.max(d))), true);
			}
			cx.case(format!("C15 p_geo {} {} {} {} {}", show_pyr(&pz), bits(10.0), bits(10.0), bits(5.0), bits(5.0)), true); // reversed: documented panic site
		}
	}
	// --- pyramids from / clipped by geo boxes whose edges sit on or a hair beside a COARSE tile border (inside the
	// 1e-6-tile rounding guard at the coarse level, outside it at finer levels): per-level projection is not the same as
	// projecting once and shifting
	{
		let lat_of = |z: u8, y: f64| -> f64 { let zoom = (1u64 << z) as f64; ((std::f64::consts::PI * (1.0 - 2.0 * y / zoom)).exp().atan() / std::f64::consts::PI - 0.25) * 360.0 };
		let lon_of = |z: u8, x: f64| -> f64 { let zoom = (1u64 << z) as f64; (x / zoom - 0.5) * 360.0 };
		let deltas = [0.0, 1e-9, -1e-9, 1e-8, -1e-8, 1e-7, -1e-7, 5e-7, -5e-7, 9e-7, -9e-7, 1.1e-6, -1.1e-6, 2e-6, -2e-6, 1e-5, -1e-5];
		for i in 0..args.n(400, 6000) {
			let zc = rng.range(1, 10) as u8;
			let m = (1u64 << zc) as f64;
			let k = |rng: &mut Rng| rng.range(1, (m as u64).max(2) - 1) as f64;
			let (kx0, ky0) = (k(&mut rng), k(&mut rng));
			let (dx0, dy0, dx1, dy1) = (*rng.pick(&deltas), *rng.pick(&deltas), *rng.pick(&deltas), *rng.pick(&deltas));
			let span = rng.range(0, 3) as f64;
			// west/north edge near border (kx0, ky0); east/south edge near border (kx0+span, ky0+span) or random
			let w = lon_of(zc, kx0 + dx0).clamp(-180.0, 180.0);
			let n = lat_of(zc, ky0 + dy0).clamp(-90.0, 90.0);
			let e = if i % 3 == 0 { (w + rng.below(40_000_000) as f64 / 1e6).min(180.0) } else { lon_of(zc, (kx0 + span + dx1).min(m)).clamp(w, 180.0) };
			let s_ = if i % 3 == 1 { (n - rng.below(20_000_000) as f64 / 1e6).max(-90.0) } else { lat_of(zc, (ky0 + span + dy1).min(m)).clamp(-90.0, n) };
			let zmax = *rng.pick(&[zc, zc + 1, 12, 16, 20, 24, 31]);
			let zmin = if rng.chance(1, 2) { 0 } else { rng.below(zc as u64 + 1) as u8 };
			cx.case(format!("C15 p_fromgeo {zmin} {zmax} {} {} {} {}", bits(w), bits(s_), bits(e), bits(n)), true);
			let mut pf = TileBBoxPyramid::new_full(zmax.min(31));
			if rng.chance(1, 3) { pf.set_zoom_min(zmin); }
			cx.case(format!("C15 p_geo {} {} {} {} {}", show_pyr(&pf), bits(w), bits(s_), bits(e), bits(n)), true);
			// the same edges as single-level projections (the reference the two pyramid functions must agree with)
			for z in [zc, zc.saturating_sub(1), (zc + 3).min(31)] {
				cx.case(format!("C15 g_from {z} {} {} {} {}", bits(w), bits(s_), bits(e), bits(n)), true);
			}
		}
	}
	cx.case("C15 p_empty".into(), true);
	// --- further functions: include_coord3, intersect_pyramid, get_coord3_by_index, is_valid, get_sort_index, get_good_zoom, centre zoom, from_geo_bbox
	for _ in 0..args.n(1500, 20000) {
		let level = if rng.chance(1, 3) { rng.range(0, 4) } else { rng.range(0, 31) } as u8;
		let m = ((1u64 << level) - 1) as u32;
		let a = rand_box(&mut rng, level);
		let s = show(&a);
		let pt = |rng: &mut Rng| -> u32 { match rng.below(5) { 0 => 0, 1 => m, 2 => m / 2, _ => rng.below(m as u64 + 1) as u32 } };
		let (x, y) = (pt(&mut rng), pt(&mut rng));
		let z = if rng.chance(1, 6) { rng.below(33) as u8 } else { level };
		cx.case(format!("C15 inc3 {s} {x} {y} {z}"), unary_nt(&a));
		if let Some(d) = den(&a) {
			let cnt = r_count(Some(d));
			for i in [0u64, cnt / 2, cnt.saturating_sub(1), cnt, rng.below(cnt.max(1))] {
				if i < (1 << 32) { cx.case(format!("C15 cbi3 {s} {i}"), true); }
			}
		} else { cx.case(format!("C15 cbi3 {s} {}", rng.below(3)), true); }
		let zc = if rng.chance(1, 8) { *rng.pick(&[30u8, 31, 32, 33, 63, 64, 255]) } else { level };
		let (vx, vy) = match rng.below(6) { 0 => (m.wrapping_add(1), y), 1 => (x, m.wrapping_add(1)), 2 => (u32::MAX, u32::MAX), _ => (x, y) };
		cx.case(format!("C15 valid {vx} {vy} {zc}"), true);
		cx.case(format!("C15 sidx {vx} {vy} {zc}"), true);
	}
	for z in 0..=31u8 { let m = ((1u64 << z) - 1) as u32; for (x, y) in [(0, 0), (m, 0), (0, m), (m, m)] { cx.case(format!("C15 sidx {x} {y} {z}"), true); cx.case(format!("C15 valid {x} {y} {z}"), true); } }
	for _ in 0..args.n(300, 3000) {
		let mut p = if rng.chance(1, 2) { TileBBoxPyramid::new_full(rng.below(14) as u8) } else { TileBBoxPyramid::new_empty() };
		if rng.chance(1, 2) { p.set_zoom_min(rng.below(6) as u8); }
		for _ in 0..rng.below(5) {
			let l = rng.below(32) as u8;
			// boxes around the ten-tile threshold: 9, 10, 11, 12 tiles
			let m = ((1u64 << l) - 1) as u32;
			p.level_bbox[l as usize] = match rng.below(4) {
				0 => rand_box(&mut rng, l),
				1 if m >= 10 => raw(l, 0, 0, rng.range(8, 11) as u32, 0),
				2 if m >= 5 => raw(l, 1, 1, rng.range(2, 4) as u32, rng.range(2, 5) as u32),
				_ => raw(l, 0, 0, 0, 0),
			};
		}
		let sp = show_pyr(&p);
		cx.case(format!("C15 p_good {sp}"), true);
		let l = rng.below(32) as u8;
		cx.case(format!("C15 ipyr {} {sp}", show(&rand_box(&mut rng, l))), true);
		let (a, b) = (rng.below(360_000_000) as f64 / 1e6 - 180.0, rng.below(360_000_000) as f64 / 1e6 - 180.0);
		let (c, d) = (rng.below(170_000_000) as f64 / 1e6 - 85.0, rng.below(170_000_000) as f64 / 1e6 - 85.0);
		let (z0, z1) = (rng.below(33), rng.below(33));
		cx.case(format!("C15 p_fromgeo {} {} {} {} {} {}", z0.min(z1), if rng.chance(1, 10) { z0.max(z1).max(32) } else { z0.max(z1).min(31) }, bits(a.min(b)), bits(c.min(d)), bits(a.max(b)), bits(c.max(d))), true);
		if rng.chance(1, 10) { cx.case(format!("C15 p_fromgeo {} {} {} {} {} {}", z0.max(z1).min(31), z0.min(z1), bits(a.min(b)), bits(c.min(d)), bits(a.max(b)), bits(c.max(d))), true); }
	}
	for z in [0, 5, 31, 40] { cx.case(format!("C15 p_full {z}"), true); }

	// --- geographic boxes
	let mut geo = |cx: &mut Ctx, z: u8, w: f64, s: f64, e: f64, n: f64| {
		cx.case(format!("C15 g_from {z} {} {} {} {}", bits(w), bits(s), bits(e), bits(n)), true);
	};
	let lat_of = |z: u8, y: f64| -> f64 { let zoom = (1u64 << z) as f64; ((std::f64::consts::PI * (1.0 - 2.0 * y / zoom)).exp().atan() / std::f64::consts::PI - 0.25) * 360.0 };
	let lon_of = |z: u8, x: f64| -> f64 { let zoom = (1u64 << z) as f64; (x / zoom - 0.5) * 360.0 };
	for z in 0..=31u8 {
		geo(&mut cx, z, -180.0, -90.0, 180.0, 90.0);
		geo(&mut cx, z, -180.0, -85.05112877980659, 180.0, 85.05112877980659);
		geo(&mut cx, z, 0.0, 0.0, 0.0, 0.0);
		geo(&mut cx, z, 180.0, 90.0, 180.0, 90.0);
		geo(&mut cx, z, -180.0, -90.0, -180.0, -90.0);
		geo(&mut cx, z, 10.0, 10.0, 5.0, 5.0); // reversed
		geo(&mut cx, z, -181.0, 0.0, 0.0, 0.0);
		geo(&mut cx, z, 0.0, 0.0, 0.0, 91.0);
		geo(&mut cx, z, f64::NAN, 0.0, 1.0, 1.0);
		let m = (1u64 << z) as f64;
		for _ in 0..args.n(6, 40) {
			// boxes on / near tile borders
			let (tx, ty) = ((rng.below(m as u64) as f64), (rng.below(m as u64) as f64));
			for k in [-3.0, -1.0, -0.5, 0.0, 0.5, 1.0, 3.0] {
				let (lon, lat) = (lon_of(z, tx + k * 1e-6), lat_of(z, ty + k * 1e-6));
				let (lon, lat) = (lon.clamp(-180.0, 180.0), lat.clamp(-90.0, 90.0));
				geo(&mut cx, z, lon, lat, lon, lat);
				let lon2 = lon_of(z, (tx + 1.0 - k * 1e-6).min(m)).clamp(lon, 180.0);
				let lat2 = lat_of(z, (ty + 1.0 - k * 1e-6).min(m)).clamp(-90.0, lat);
				geo(&mut cx, z, lon, lat2, lon2, lat);
			}
			// degenerate segments lying exactly on a tile border and spanning several tiles on the other axis
			{
				let span = (rng.range(1, 5) as f64).min(m - 1.0).max(0.0);
				let (bx, by) = (tx.min(m - 1.0), ty.min(m - 1.0));
				let lon_b = lon_of(z, bx).clamp(-180.0, 180.0);
				let (lat_n, lat_s) = (lat_of(z, by).clamp(-90.0, 90.0), lat_of(z, (by + span + 0.5).min(m)).clamp(-90.0, 90.0));
				geo(&mut cx, z, lon_b, lat_s.min(lat_n), lon_b, lat_n); // vertical segment on a column border
				let lat_b = lat_of(z, by).clamp(-90.0, 90.0);
				let (lon_w, lon_e) = (lon_of(z, bx).clamp(-180.0, 180.0), lon_of(z, (bx + span + 0.5).min(m)).clamp(-180.0, 180.0));
				geo(&mut cx, z, lon_w, lat_b, lon_e.max(lon_w), lat_b); // horizontal segment on a row border
			}
			// random valid boxes
			let (a, b) = (rng.below(360_000_000) as f64 / 1e6 - 180.0, rng.below(360_000_000) as f64 / 1e6 - 180.0);
			let (c, d) = (rng.below(180_000_000) as f64 / 1e6 - 90.0, rng.below(180_000_000) as f64 / 1e6 - 90.0);
			geo(&mut cx, z, a.min(b), c.min(d), a.max(b), c.max(d));
		}
	}
	out.finish();
}
