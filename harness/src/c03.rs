//! C03 – the advertised coverage pyramid contains every tile a source can return; for the
//! tile-derived formats (mbtiles, pmtiles, tar, directory) every level box is exactly the bounding box.
//!
//! Containers: tile set → `MemSource` → REAL writer → REAL reader → advertised pyramid,
//!   case line `C03 cov <kind> <source pyramid> <tiles x,y,z;…>`  → pyramid (32 boxes) | err | panic
//!   oracle (direct): exact per-level min/max of the tile set = advertised box (containment for
//!   versatiles, whose blocks are cut from the *source's* pyramid); every stored tile is found inside;
//!   lookups over every advertised level box grown by 2 return nothing outside the advertised box.
//! Pipelines: sources + random pipelines of `tsrc`/`c02` built through the real `PipelineFactory`,
//!   case line `C03p P <rpn> <env>` (model: `PipeProto`, coverage of the built operation),
//!   oracle: every tile the operation returns (lookups at all source coordinates and over the grown
//!   coverage, streams over the grown level boxes) lies inside the advertised pyramid.
use crate::c02::{gen_pipe, gen_sources};
use crate::c06::{norm, norm_pyr, parse_pyr, pyr_str, tiles_str, B, C};
use crate::common::*;
use crate::memsrc::MemSource;
use crate::tsrc::{build_op, levels_of, run_in_world, Ident, World};
use serde_json::json;
use std::collections::{BTreeMap, BTreeSet};
use std::path::PathBuf;
use versatiles_container::{get_reader, write_to_filename};
use versatiles_core::types::*;
use versatiles_core::utils::compress;

const KINDS: [&str; 5] = ["mbtiles", "pmtiles", "tar", "dir", "versatiles"];

struct Ctx {
	rt: tokio::runtime::Runtime,
	dir: PathBuf,
	n: u64,
}

fn exact_boxes(tiles: &[C]) -> Vec<B> {
	let mut v: Vec<B> = vec![None; 32];
	for &(x, y, z) in tiles {
		let e = &mut v[z as usize];
		*e = Some(match *e {
			None => (x, y, x, y),
			Some((a, b, c, d)) => (a.min(x), b.min(y), c.max(x), d.max(y)),
		});
	}
	v
}

fn inside(a: &B, b: &B) -> bool {
	match (a, b) {
		(None, _) => true,
		(Some(_), None) => false,
		(Some(a), Some(b)) => a.0 >= b.0 && a.1 >= b.1 && a.2 <= b.2 && a.3 <= b.3,
	}
}

fn payload(c: &C) -> Vec<u8> {
	format!("tile {},{},{}", c.0, c.1, c.2).into_bytes()
}

/// write with the real writer, re-open with the real reader, compare the advertised pyramid
fn container_case(out: &mut Out, ctx: &mut Ctx, kind: &str, tiles: &[C], generous: bool) {
	let (format, comp) = if kind == "mbtiles" { (TileFormat::PBF, TileCompression::Gzip) } else { (TileFormat::JSON, TileCompression::Uncompressed) };
	let blobs: Vec<(TileCoord3, Blob)> = tiles.iter().map(|c| (TileCoord3::new(c.0, c.1, c.2).unwrap(), compress(Blob::from(payload(c)), &comp).unwrap())).collect();
	let mut src = MemSource::new("c03", format, comp, blobs);
	if generous {
		let mut p = src.parameters.bbox_pyramid.clone();
		p.add_border(2, 1, 1, 3);
		src = src.with_pyramid(p);
	}
	let src_cover = src.parameters.bbox_pyramid.clone();
	ctx.n += 1;
	let path = ctx.dir.join(format!("t{}{}", ctx.n, if kind == "dir" { "".to_string() } else { format!(".{kind}") }));
	if kind == "dir" {
		std::fs::create_dir_all(&path).unwrap();
	}
	let ps = path.to_str().unwrap().to_string();
	let line = format!("C03 cov {kind} {} {}", pyr_str(&src_cover), tiles_str(tiles));
	let sig = |k: &str| json!({"kind": k, "format": kind});
	let r = catch(|| {
		ctx.rt.block_on(async {
			let mut s = src.clone();
			write_to_filename(&mut s, &ps).await?;
			get_reader(&ps).await
		})
	});
	let levels_used: BTreeSet<u8> = tiles.iter().map(|c| c.2).collect();
	let gaps = levels_used.iter().next_back().map_or(false, |hi| (*levels_used.iter().next().unwrap()..=*hi).any(|z| !levels_used.contains(&z)));
	out.count(&format!("kind_{kind}"));
	if gaps {
		out.count("zoom_gaps");
	}
	let nontrivial = tiles.len() > 1;
	match r {
		Err(p) => {
			out.case(&line, "panic", nontrivial);
			out.oracle(false, &format!("C03 open: writing/re-opening the {kind} container panicked: {}", trunc(&p, 160)), json!({"kind": "open_panic", "format": kind, "gaps": gaps, "level31": levels_used.contains(&31)}), json!({"case": line}));
		}
		Ok(Err(e)) => {
			out.case(&line, "err", nontrivial);
			out.oracle(false, &format!("C03 open: writing/re-opening the {kind} container failed: {}", trunc(&format!("{e:#}"), 160)), json!({"kind": "open_err", "format": kind, "gaps": gaps, "level31": levels_used.contains(&31)}), json!({"case": line}));
		}
		Ok(Ok(rd)) => {
			let adv = rd.get_parameters().bbox_pyramid.clone();
			out.case(&line, &pyr_str(&adv), nontrivial);
			let got = norm_pyr(&adv);
			let want = exact_boxes(tiles);
			// (1) exactness / containment of the advertised boxes
			let bad = (0..32usize).find(|&z| if kind == "versatiles" { !inside(&want[z], &got[z]) } else { got[z] != want[z] });
			out.oracle(
				bad.is_none(),
				&format!("C03 bounds: {kind} advertises {:?} at level {:?}, the bounding box of the stored tiles is {:?}", bad.map(|z| got[z]), bad, bad.map(|z| want[z])),
				sig("bounds"),
				json!({"case": line}),
			);
			// (2) every stored tile is returned and lies inside; (3) nothing is returned outside
			let set: BTreeSet<C> = tiles.iter().cloned().collect();
			let mut e: Option<String> = None;
			for c in tiles {
				let r = catch(|| ctx.rt.block_on(rd.get_tile_data(&TileCoord3::new(c.0, c.1, c.2).unwrap())));
				match r {
					Ok(Ok(Some(_))) => {
						if !adv.contains_coord(&TileCoord3::new(c.0, c.1, c.2).unwrap()) {
							e = Some(format!("stored tile {c:?} is returned but lies outside the advertised coverage"));
						}
					}
					other => e = Some(format!("stored tile {c:?} is not returned: {:?}", other.map(|x| x.map(|y| y.map(|b| b.len())).map_err(|e| e.to_string())))),
				}
			}
			let mut probes = 0u64;
			for z in 0u8..32 {
				let m = ((1u64 << z) - 1) as u32;
				let (x0, y0, x1, y1) = match (got[z as usize], want[z as usize]) {
					(Some(g), _) => g,
					(None, Some(w)) => w,
					_ => continue,
				};
				if (x1 - x0) as u64 * (y1 - y0) as u64 > 2500 {
					continue;
				}
				for y in y0.saturating_sub(2)..=((y1 as u64 + 2).min(m as u64) as u32) {
					for x in x0.saturating_sub(2)..=((x1 as u64 + 2).min(m as u64) as u32) {
						probes += 1;
						let c = TileCoord3::new(x, y, z).unwrap();
						let r = catch(|| ctx.rt.block_on(rd.get_tile_data(&c)));
						match r {
							Ok(Ok(Some(_))) => {
								if !adv.contains_coord(&c) && e.is_none() {
									e = Some(format!("lookup returns a tile at ({x},{y},{z}) outside the advertised level box {:?}", got[z as usize]));
								}
								if !set.contains(&(x, y, z)) && e.is_none() {
									e = Some(format!("lookup returns a tile at ({x},{y},{z}) that was never stored"));
								}
							}
							Ok(Ok(None)) => {}
							Ok(Err(_)) | Err(_) => {
								if e.is_none() {
									e = Some(format!("lookup at ({x},{y},{z}) failed/panicked"));
								}
							}
						}
					}
				}
			}
			out.count_n("lookup_probes", probes);
			out.oracle(e.is_none(), &format!("C03 lookups: {kind}: {}", e.clone().unwrap_or_default()), sig("lookups"), json!({"case": line}));
		}
	}
	let _ = std::fs::remove_file(&path);
	let _ = std::fs::remove_dir_all(&path);
}

// ---------------------------------------------------------------------------------------------
// tile-set shapes
// ---------------------------------------------------------------------------------------------
/// extreme rows avoid the extreme and the middle column (the three columns MBTiles samples)
fn shape_irregular(rng: &mut Rng, z: u8) -> Vec<C> {
	let m = (1u64 << z) - 1;
	let w = rng.range(4, 12).min(m);
	let h = rng.range(4, 12).min(m);
	let x0 = match rng.below(3) {
		0 => 0,
		1 => m - w,
		_ => rng.range(0, m - w),
	};
	let y0 = match rng.below(3) {
		0 => 0,
		1 => m - h,
		_ => rng.range(0, m - h),
	};
	let (x1, y1) = (x0 + w, y0 + h);
	let xc = (x0 + x1) / 2;
	let mut set = BTreeSet::new();
	// the three sampled columns hold only inner rows
	let inner = |rng: &mut Rng| if h >= 2 { rng.range(y0 + 1, y1 - 1) } else { y0 };
	for x in [x0, xc, x1] {
		set.insert((x, inner(rng)));
		if rng.chance(1, 2) {
			set.insert((x, inner(rng)));
		}
	}
	// extreme rows only in other columns
	let others: Vec<u64> = (x0..=x1).filter(|x| *x != x0 && *x != xc && *x != x1).collect();
	if !others.is_empty() {
		set.insert((*rng.pick(&others), y0));
		set.insert((*rng.pick(&others), y1));
		for _ in 0..rng.below(6) {
			set.insert((*rng.pick(&others), rng.range(y0, y1)));
		}
	}
	set.into_iter().map(|(x, y)| (x as u32, y as u32, z)).collect()
}
fn shape_random(rng: &mut Rng, z: u8) -> Vec<C> {
	let m = (1u64 << z) - 1;
	let w = rng.range(0, 9).min(m);
	let h = rng.range(0, 9).min(m);
	let x0 = if rng.chance(1, 4) { m - w } else if rng.chance(1, 3) { 0 } else { rng.range(0, m - w) };
	let y0 = if rng.chance(1, 4) { m - h } else if rng.chance(1, 3) { 0 } else { rng.range(0, m - h) };
	let mut set = BTreeSet::new();
	let p = rng.range(1, 6);
	for y in y0..=y0 + h {
		for x in x0..=x0 + w {
			if rng.chance(p, 8) {
				set.insert((x, y));
			}
		}
	}
	if set.is_empty() {
		set.insert((x0, y0 + h));
	}
	set.into_iter().map(|(x, y)| (x as u32, y as u32, z)).collect()
}
fn pick_level(rng: &mut Rng) -> u8 {
	match rng.below(14) {
		0 => 0,
		1 => 1,
		2 => 2,
		3..=6 => rng.range(3, 8) as u8,
		7..=9 => rng.range(9, 16) as u8,
		10 => rng.range(17, 29) as u8,
		11 => 30,
		_ => 31,
	}
}
fn gen_tileset(rng: &mut Rng) -> Vec<C> {
	let mut tiles = vec![];
	let mut used = BTreeSet::new();
	let nl = match rng.below(6) {
		0 => 1,
		1..=3 => 2,
		_ => 3,
	};
	// contiguous run or levels with gaps
	let contiguous = rng.chance(1, 3);
	let z0 = pick_level(rng);
	for i in 0..nl {
		let z = if contiguous { (z0 as u64 + i).min(31) as u8 } else { pick_level(rng) };
		if !used.insert(z) {
			continue;
		}
		match rng.below(6) {
			0 => {
				let m = ((1u64 << z) - 1) as u32;
				tiles.push(*rng.pick(&[(0, 0, z), (m, m, z), (0, m, z), (m, 0, z), (m / 2, m / 2, z)]));
			}
			1..=3 if z >= 3 => tiles.extend(shape_irregular(rng, z)),
			_ => tiles.extend(shape_random(rng, z)),
		}
	}
	tiles.sort_by_key(|c| (c.2, c.0, c.1));
	tiles.dedup();
	tiles
}

// ---------------------------------------------------------------------------------------------
// pipelines
// ---------------------------------------------------------------------------------------------
fn pipeline_case(out: &mut Out, rt: &tokio::runtime::Runtime, id: &mut Ident, w: &World, rpn: &str) {
	// model side: coverage of the built operation
	run_in_world(rt, out, id, w, "C03p", "P", rpn, "");
	let line = format!("C03p P {rpn} {}", w.env_string());
	let op = match build_op(rt, w, rpn) {
		Ok(Ok(o)) => o,
		_ => return,
	};
	let cover = op.get_parameters().bbox_pyramid.clone();
	let got = norm_pyr(&cover);
	let mut e: Option<String> = None;
	let mut probes: BTreeSet<(u32, u32, u8)> = BTreeSet::new();
	for s in &w.specs {
		for (z, x, y) in s.tiles.keys() {
			probes.insert((*x, *y, *z));
		}
	}
	for z in 0u8..32 {
		if let Some((x0, y0, x1, y1)) = got[z as usize] {
			if (x1 - x0) as u64 * (y1 - y0) as u64 > 600 {
				continue;
			}
			let m = ((1u64 << z) - 1) as u32;
			for y in y0.saturating_sub(2)..=((y1 as u64 + 2).min(m as u64) as u32) {
				for x in x0.saturating_sub(2)..=((x1 as u64 + 2).min(m as u64) as u32) {
					probes.insert((x, y, z));
				}
			}
		}
	}
	let mut hits = 0;
	for (x, y, z) in &probes {
		let c = TileCoord3::new(*x, *y, *z).unwrap();
		if let Ok(Ok(Some(_))) = catch(|| rt.block_on(op.get_tile_data(&c))) {
			hits += 1;
			if !cover.contains_coord(&c) && e.is_none() {
				e = Some(format!("the operation returns a tile at ({x},{y},{z}) outside its advertised level box {:?}", got[*z as usize]));
			}
		}
	}
	// streams over the grown level boxes must stay inside as well
	for z in 0u8..32 {
		let levels: BTreeSet<u8> = probes.iter().map(|p| p.2).collect();
		if !levels.contains(&z) {
			continue;
		}
		let m = ((1u64 << z) - 1) as u32;
		let (x0, y0, x1, y1) = match got[z as usize] {
			Some(b) => b,
			None => {
				let v: Vec<_> = probes.iter().filter(|p| p.2 == z).collect();
				(v.iter().map(|p| p.0).min().unwrap(), v.iter().map(|p| p.1).min().unwrap(), v.iter().map(|p| p.0).max().unwrap(), v.iter().map(|p| p.1).max().unwrap())
			}
		};
		if (x1 - x0) as u64 * (y1 - y0) as u64 > 600 {
			continue;
		}
		let b = TileBBox::new(z, x0.saturating_sub(2), y0.saturating_sub(2), (x1 as u64 + 2).min(m as u64) as u32, (y1 as u64 + 2).min(m as u64) as u32).unwrap();
		if let Ok(v) = catch(|| rt.block_on(async { op.get_tile_stream(b.clone()).await.collect().await })) {
			for (c, _) in v {
				if !cover.contains_coord(&c) && e.is_none() {
					e = Some(format!("the operation streams a tile at {c:?} outside its advertised level box {:?}", got[z as usize]));
				}
			}
		}
	}
	out.count_n("pipeline_probe_hits", hits);
	let ops: String = rpn.chars().filter(|c| c.is_ascii_uppercase()).collect::<BTreeSet<char>>().into_iter().collect();
	out.oracle(e.is_none(), &format!("C03 pipeline: {}", e.clone().unwrap_or_default()), json!({"kind": "pipeline_outside", "ops": ops}), json!({"case": line}));
}

pub fn run(args: &Args) {
	quiet_panics();
	let mut out = Out::new(&args.out);
	out.rule = "containers: tile sets (single tiles, irregular clusters whose extreme rows avoid the first/middle/last column, random sparse clusters; levels 0..31 incl. border coordinates 0 and 2^z-1, contiguous levels and zoom gaps; exact or generous source pyramid) written with the real mbtiles/pmtiles/tar/directory/versatiles writers and re-opened with the real readers: advertised pyramid vs model and vs the exact per-level bounding box (equality; containment for versatiles), lookups of all stored tiles and over every advertised box grown by 2; pipelines: 2-4 sources (memory and containers) under random pipelines (filters, overlay, merge, update) built by the real PipelineFactory: coverage vs model, every returned tile inside the advertised pyramid. non-trivial = more than one tile / pipeline with at least one operation".into();
	let dir = std::fs::canonicalize(&args.out).unwrap().join("c03files");
	std::fs::create_dir_all(&dir).unwrap();
	let rt = tokio::runtime::Builder::new_multi_thread().worker_threads(4).enable_all().build().unwrap();
	let mut ctx = Ctx { rt, dir: dir.clone(), n: 0 };
	let mut id = Ident::new();
	if let Some(p) = &args.replay {
		for line in std::fs::read_to_string(p).unwrap().lines() {
			let t: Vec<&str> = line.split(' ').collect();
			if t.len() == 5 && t[0] == "C03" && t[1] == "cov" {
				let tiles: Vec<C> = if t[4] == "-" {
					vec![]
				} else {
					t[4].split(';')
						.map(|s| {
							let p: Vec<&str> = s.split(',').collect();
							(p[0].parse().unwrap(), p[1].parse().unwrap(), p[2].parse().unwrap())
						})
						.collect()
				};
				let exact = exact_boxes(&tiles);
				let generous = t[3] != "-" && norm_pyr(&parse_pyr(t[3])) != exact;
				container_case(&mut out, &mut ctx, t[2], &tiles, generous);
			} else if t.len() >= 4 && t[0] == "C03p" {
				let specs = crate::tsrc::parse_env(t[3]);
				let w = World::build(&ctx.rt, &dir, &specs);
				pipeline_case(&mut out, &ctx.rt, &mut id, &w, t[2]);
				w.cleanup();
			}
		}
		let _ = std::fs::remove_dir_all(&dir);
		out.finish();
		return;
	}
	let mut rng = Rng::new(args.seed);
	// fixed boundary sets
	let m31 = 2147483647u32;
	let fixed: Vec<Vec<C>> = vec![
		vec![(0, 0, 0)],
		vec![(0, 0, 31)],
		vec![(m31, m31, 31)],
		vec![(m31 - 1, m31, 31), (m31, m31 - 2, 31)],
		vec![(0, 0, 0), (3, 2, 2), (1, 1, 5)],
		// extreme rows (0 and 9) in columns 1 and 7, sampled columns 0, 4, 8 hold rows 4..5 only
		vec![(0, 4, 4), (4, 5, 4), (8, 4, 4), (1, 0, 4), (7, 9, 4)],
		vec![(5, 5, 3), (0, 0, 30), (1073741823, 1073741823, 30)].into_iter().filter(|c| c.2 != 30 || c.0 == 0).collect(),
	];
	for tiles in &fixed {
		for kind in KINDS {
			container_case(&mut out, &mut ctx, kind, tiles, false);
		}
	}
	let n = args.n(130, 1500);
	for i in 0..n {
		let tiles = gen_tileset(&mut rng);
		for kind in KINDS {
			let generous = kind == "versatiles" && i % 2 == 1;
			container_case(&mut out, &mut ctx, kind, &tiles, generous);
		}
	}
	// pipelines
	let mut next = 1u64;
	let np = args.n(60, 600);
	for i in 0..np {
		let specs = gen_sources(&mut rng, &mut next, 2, 4, 24);
		let levels = levels_of(&specs);
		let w = World::build(&ctx.rt, &dir, &specs);
		if !w.usable() {
			out.count("world_unusable");
			w.cleanup();
			continue;
		}
		for _ in 0..3 {
			let depth = if args.thorough() { rng.range(1, 4) } else { rng.range(1, 3) } as u32;
			let rpn = gen_pipe(&mut rng, depth, specs.len(), &levels);
			pipeline_case(&mut out, &ctx.rt, &mut id, &w, &rpn);
		}
		// every single source as a trivial pipeline
		if i % 4 == 0 {
			for k in 0..specs.len() {
				pipeline_case(&mut out, &ctx.rt, &mut id, &w, &format!("L{k}"));
			}
		}
		w.cleanup();
	}
	let _ = std::fs::remove_dir_all(&dir);
	out.finish();
}
