//! C03 – the advertised coverage pyramid contains every tile a source can return; for the
//! tile-derived formats (mbtiles, pmtiles, tar, directory) every level box is exactly the bounding box.
//!
//! Containers: tile set → `MemSource` → REAL writer → REAL reader → advertised pyramid,
//!   case line `C03 cov <kind> <source pyramid> <tiles x,y,z;…>`  → pyramid (32 boxes) | err | panic
//!   oracle (direct): exact per-level min/max of the tile set = advertised box (containment for
//!   versatiles, whose blocks are cut from the *source's* pyramid); every stored tile is found inside;
//!   lookups over every advertised level box grown by 2 return nothing outside the advertised box.
//! Pipelines: sources + random pipelines of `tsrc`/`c02` built through the real `PipelineFactory`,
//!   case line `C03p P <rpn> <env>` (model: `PipeProto`, coverage of the built operation),
//!   oracle: every tile the operation returns (lookups at all source coordinates and over the grown
//!   coverage, streams over the grown level boxes) lies inside the advertised pyramid.
use crate::c02::{gen_pipe, gen_sources};
use crate::c16::{gen_mb_choices, gen_pm_choices, gen_vt_choices};
use crate::indep_formats as ind;
use crate::c06::{norm, norm_pyr, parse_pyr, pyr_str, tiles_str, B, C};
use crate::common::*;
use crate::memsrc::MemSource;
use crate::tsrc::{build_op, levels_of, run_in_world, Ident, World};
use serde_json::json;
use std::collections::{BTreeMap, BTreeSet};
use std::path::PathBuf;
use versatiles_container::{get_reader, write_to_filename};
use versatiles_core::types::*;
use versatiles_core::utils::compress;

const KINDS: [&str; 5] = ["mbtiles", "pmtiles", "tar", "dir", "versatiles"];

struct Ctx {
	rt: tokio::runtime::Runtime,
	dir: PathBuf,
	n: u64,
}

fn exact_boxes(tiles: &[C]) -> Vec<B> {
	let mut v: Vec<B> = vec![None; 32];
	for &(x, y, z) in tiles {
		let e = &mut v[z as usize];
		*e = Some(match *e {
			None => (x, y, x, y),
			Some((a, b, c, d)) => (a.min(x), b.min(y), c.max(x), d.max(y)),
		});
	}
	v
}

fn inside(a: &B, b: &B) -> bool {
	match (a, b) {
		(None, _) => true,
		(Some(_), None) => false,
		(Some(a), Some(b)) => a.0 >= b.0 && a.1 >= b.1 && a.2 <= b.2 && a.3 <= b.3,
	}
}

/// payload classes (checklist 3): 1 byte, duplicates below / above the writers' 1000-byte de-dup threshold, unique
fn payload(c: &C) -> Vec<u8> {
	match (c.0 as u64 + 3 * c.1 as u64) % 5 {
		0 => vec![b'x'],
		1 => b"same payload".to_vec(),
		2 => b"y".repeat(1500),
		_ => format!("tile {},{},{}", c.0, c.1, c.2).into_bytes(),
	}
}


/// the direct oracle on an opened reader: advertised boxes vs exact bounding boxes of the returnable
/// tiles (containment when `exact` is false), every stored tile found inside, nothing outside
fn judge(out: &mut Out, ctx: &Ctx, kind: &str, origin: &str, rd: &dyn TilesReaderTrait, tiles: &[C], line: &str, exact: bool, nontrivial: bool, case_ans: Option<String>) {
	let sig = |k: &str| json!({"kind": k, "format": kind, "origin": origin});
	let kind_is_versatiles = !exact;
		let adv = rd.get_parameters().bbox_pyramid.clone();
		out.case(line, &case_ans.unwrap_or_else(|| pyr_str(&adv)), nontrivial);
		let got = norm_pyr(&adv);
		let want = exact_boxes(tiles);
		// (1) exactness / containment of the advertised boxes
		let bad = (0..32usize).find(|&z| if kind_is_versatiles { !inside(&want[z], &got[z]) } else { got[z] != want[z] });
		out.oracle(
			bad.is_none(),
			&format!("C03 bounds: {kind} advertises {:?} at level {:?}, the bounding box of the stored tiles is {:?}", bad.map(|z| got[z]), bad, bad.map(|z| want[z])),
			sig("bounds"),
			json!({"case": line}),
		);
		// (2) every stored tile is returned and lies inside; (3) nothing is returned outside
		let set: BTreeSet<C> = tiles.iter().cloned().collect();
		let mut e: Option<String> = None;
		for c in tiles {
			let r = catch(|| ctx.rt.block_on(rd.get_tile_data(&TileCoord3::new(c.0, c.1, c.2).unwrap())));
			match r {
				Ok(Ok(Some(_))) => {
					if !adv.contains_coord(&TileCoord3::new(c.0, c.1, c.2).unwrap()) {
						e = Some(format!("stored tile {c:?} is returned but lies outside the advertised coverage"));
					}
				}
				other => e = Some(format!("stored tile {c:?} is not returned: {:?}", other.map(|x| x.map(|y| y.map(|b| b.len())).map_err(|e| e.to_string())))),
			}
		}
		let mut probes = 0u64;
		for z in 0u8..32 {
			let m = ((1u64 << z) - 1) as u32;
			let (x0, y0, x1, y1) = match (got[z as usize], want[z as usize]) {
				(Some(g), _) => g,
				(None, Some(w)) => w,
				_ => continue,
			};
			if (x1 - x0) as u64 * (y1 - y0) as u64 > 2500 {
				continue;
			}
			for y in y0.saturating_sub(2)..=((y1 as u64 + 2).min(m as u64) as u32) {
				for x in x0.saturating_sub(2)..=((x1 as u64 + 2).min(m as u64) as u32) {
					probes += 1;
					let c = TileCoord3::new(x, y, z).unwrap();
					let r = catch(|| ctx.rt.block_on(rd.get_tile_data(&c)));
					match r {
						Ok(Ok(Some(_))) => {
							if !adv.contains_coord(&c) && e.is_none() {
								e = Some(format!("lookup returns a tile at ({x},{y},{z}) outside the advertised level box {:?}", got[z as usize]));
							}
							if !set.contains(&(x, y, z)) && e.is_none() {
								e = Some(format!("lookup returns a tile at ({x},{y},{z}) that was never stored"));
							}
						}
						Ok(Ok(None)) => {}
						Ok(Err(_)) | Err(_) => {
							if e.is_none() {
								e = Some(format!("lookup at ({x},{y},{z}) failed/panicked"));
							}
						}
					}
				}
			}
		}
		// (4) the stream over every (small) advertised level box delivers exactly the stored tiles of the level,
	//     all inside the box – and a second pass over the same reader gives the same answer (reuse)
	for z in 0u8..32 {
		let Some((x0, y0, x1, y1)) = got[z as usize] else { continue };
		if (x1 - x0 + 1) as u64 * (y1 - y0 + 1) as u64 > 2500 {
			continue;
		}
		let b = adv.get_level_bbox(z).clone();
		let want_z: BTreeSet<C> = tiles.iter().filter(|c| c.2 == z).cloned().collect();
		for pass in 0..2 {
			match catch(|| ctx.rt.block_on(async { rd.get_bbox_tile_stream(b.clone()).await.collect().await })) {
				Ok(v) => {
					let sv: BTreeSet<C> = v.iter().map(|(c, _)| (c.x, c.y, c.z)).collect();
					if (sv != want_z || sv.len() != v.len()) && e.is_none() {
						e = Some(format!("stream over the advertised level-{z} box (pass {pass}) delivers {} tiles ({} distinct), {} are stored there", v.len(), sv.len(), want_z.len()));
					}
				}
				Err(p) => {
					if e.is_none() {
						e = Some(format!("stream over the advertised level-{z} box panicked: {}", trunc(&p, 120)));
					}
				}
			}
		}
	}
	out.count_n("lookup_probes", probes);
		out.oracle(e.is_none(), &format!("C03 lookups: {kind}: {}", e.clone().unwrap_or_default()), sig("lookups"), json!({"case": line}));
}

/// write with the real writer, re-open with the real reader, compare the advertised pyramid
fn container_case(out: &mut Out, ctx: &mut Ctx, kind: &str, tiles: &[C], generous: bool, empties: Option<bool>) {
	// payload class "0 bytes" (checklist 3): the formats that can store a zero-length tile (mbtiles row, tar
	// member, file) return it on lookup, so it has to lie inside the advertised coverage – here the tiles on
	// the rim of every level are the empty ones.  (versatiles / pmtiles define length 0 as "no tile": C04.)
	let empties = matches!(kind, "mbtiles" | "tar" | "dir") && empties.unwrap_or(ctx.n % 3 == 1);
	let (format, comp) = if kind == "mbtiles" {
		if empties { (TileFormat::PNG, TileCompression::Uncompressed) } else { (TileFormat::PBF, TileCompression::Gzip) }
	} else {
		(TileFormat::JSON, TileCompression::Uncompressed)
	};
	let rim = exact_boxes(tiles);
	let on_rim = |c: &C| rim[c.2 as usize].map_or(false, |(x0, y0, x1, y1)| c.0 == x0 || c.0 == x1 || c.1 == y0 || c.1 == y1);
	if empties {
		out.count("containers_with_empty_rim_tiles");
	}
	let blobs: Vec<(TileCoord3, Blob)> = tiles
		.iter()
		.map(|c| (TileCoord3::new(c.0, c.1, c.2).unwrap(), if empties && on_rim(c) { Blob::from(Vec::<u8>::new()) } else { compress(Blob::from(payload(c)), &comp).unwrap() }))
		.collect();
	let mut src = MemSource::new("c03", format, comp, blobs);
	if generous {
		let mut p = src.parameters.bbox_pyramid.clone();
		p.add_border(2, 1, 1, 3);
		src = src.with_pyramid(p);
	}
	let src_cover = src.parameters.bbox_pyramid.clone();
	ctx.n += 1;
	let path = ctx.dir.join(format!("t{}{}", ctx.n, if kind == "dir" { "".to_string() } else { format!(".{kind}") }));
	if kind == "dir" {
		std::fs::create_dir_all(&path).unwrap();
	}
	let ps = path.to_str().unwrap().to_string();
	// kind suffix `0` = the rim tiles of every level are stored with a zero-length payload
	let line = format!("C03 cov {kind}{} {} {}", if empties { "0" } else { "" }, pyr_str(&src_cover), tiles_str(tiles));
	// checklist 5: every fourth container is written onto an existing, different container of the same
	// kind (directories excepted: they merge, see the known finding of C06)
	if ctx.n % 4 == 0 && kind != "dir" {
		let other: Vec<(TileCoord3, Blob)> = [(0u32, 0u32, 1u8), (1, 1, 1), (5, 6, 3), (200, 100, 9)].iter().map(|c| (TileCoord3::new(c.0, c.1, c.2).unwrap(), compress(Blob::from(b"previous".to_vec()), &comp).unwrap())).collect();
		let mut prev = MemSource::new("c03prev", format, comp, other);
		let _ = catch(|| ctx.rt.block_on(write_to_filename(&mut prev, &ps)));
		out.count("written_onto_existing_container");
	}
	let r = catch(|| {
		ctx.rt.block_on(async {
			let mut s = src.clone();
			write_to_filename(&mut s, &ps).await?;
			get_reader(&ps).await
		})
	});
	let levels_used: BTreeSet<u8> = tiles.iter().map(|c| c.2).collect();
	let gaps = levels_used.iter().next_back().map_or(false, |hi| (*levels_used.iter().next().unwrap()..=*hi).any(|z| !levels_used.contains(&z)));
	out.count(&format!("kind_{kind}"));
	if gaps {
		out.count("zoom_gaps");
	}
	let nontrivial = tiles.len() > 1;
	match r {
		Err(p) => {
			out.case(&line, "panic", nontrivial);
			out.oracle(false, &format!("C03 open: writing/re-opening the {kind} container panicked: {}", trunc(&p, 160)), json!({"kind": "open_panic", "format": kind, "gaps": gaps, "level31": levels_used.contains(&31)}), json!({"case": line}));
		}
		Ok(Err(e)) => {
			out.case(&line, "err", nontrivial);
			out.oracle(false, &format!("C03 open: writing/re-opening the {kind} container failed: {}", trunc(&format!("{e:#}"), 160)), json!({"kind": "open_err", "format": kind, "gaps": gaps, "level31": levels_used.contains(&31)}), json!({"case": line}));
		}
		Ok(Ok(rd)) => judge(out, ctx, kind, "writer", rd.as_ref(), tiles, &line, kind != "versatiles", nontrivial, None),
	}
	let _ = std::fs::remove_file(&path);
	let _ = std::fs::remove_dir_all(&path);
}

// ---------------------------------------------------------------------------------------------
// tile-set shapes
// ---------------------------------------------------------------------------------------------
/// extreme rows avoid the extreme and the middle column (the three columns MBTiles samples)
fn shape_irregular(rng: &mut Rng, z: u8) -> Vec<C> {
	let m = (1u64 << z) - 1;
	let w = rng.range(4, 12).min(m);
	let h = rng.range(4, 12).min(m);
	let x0 = match rng.below(3) {
		0 => 0,
		1 => m - w,
		_ => rng.range(0, m - w),
	};
	let y0 = match rng.below(3) {
		0 => 0,
		1 => m - h,
		_ => rng.range(0, m - h),
	};
	let (x1, y1) = (x0 + w, y0 + h);
	let xc = (x0 + x1) / 2;
	let mut set = BTreeSet::new();
	// the three sampled columns hold only inner rows
	let inner = |rng: &mut Rng| if h >= 2 { rng.range(y0 + 1, y1 - 1) } else { y0 };
	for x in [x0, xc, x1] {
		set.insert((x, inner(rng)));
		if rng.chance(1, 2) {
			set.insert((x, inner(rng)));
		}
	}
	// extreme rows only in other columns
	let others: Vec<u64> = (x0..=x1).filter(|x| *x != x0 && *x != xc && *x != x1).collect();
	if !others.is_empty() {
		set.insert((*rng.pick(&others), y0));
		set.insert((*rng.pick(&others), y1));
		for _ in 0..rng.below(6) {
			set.insert((*rng.pick(&others), rng.range(y0, y1)));
		}
	}
	set.into_iter().map(|(x, y)| (x as u32, y as u32, z)).collect()
}
fn shape_random(rng: &mut Rng, z: u8) -> Vec<C> {
	let m = (1u64 << z) - 1;
	let w = rng.range(0, 9).min(m);
	let h = rng.range(0, 9).min(m);
	let x0 = if rng.chance(1, 4) { m - w } else if rng.chance(1, 3) { 0 } else { rng.range(0, m - w) };
	let y0 = if rng.chance(1, 4) { m - h } else if rng.chance(1, 3) { 0 } else { rng.range(0, m - h) };
	let mut set = BTreeSet::new();
	let p = rng.range(1, 6);
	for y in y0..=y0 + h {
		for x in x0..=x0 + w {
			if rng.chance(p, 8) {
				set.insert((x, y));
			}
		}
	}
	if set.is_empty() {
		set.insert((x0, y0 + h));
	}
	set.into_iter().map(|(x, y)| (x as u32, y as u32, z)).collect()
}
/// cluster straddling one or two 256-block borders (versatiles blocks / the 256-grid of the writers)
fn shape_block_border(rng: &mut Rng, z: u8) -> Vec<C> {
	let nb = 1u64 << (z - 8); // blocks per axis
	let bx = rng.range(1, nb - 1).min(nb - 1).max(1);
	let by = rng.range(1, nb - 1).min(nb - 1).max(1);
	let mut set = BTreeSet::new();
	for (dx, dy) in [(-1i64, -1i64), (0, 0), (-1, 0), (0, -1), (255, 3), (256, 2), (-2, 255)] {
		if rng.chance(2, 3) {
			let (x, y) = ((bx * 256) as i64 + dx, (by * 256) as i64 + dy);
			if x >= 0 && y >= 0 && (x as u64) < (1u64 << z) && (y as u64) < (1u64 << z) {
				set.insert((x as u32, y as u32, z));
			}
		}
	}
	if set.is_empty() {
		set.insert(((bx * 256) as u32, (by * 256 - 1) as u32, z));
	}
	set.into_iter().collect()
}

fn pick_level(rng: &mut Rng) -> u8 {
	match rng.below(14) {
		0 => 0,
		1 => 1,
		2 => 2,
		3..=6 => rng.range(3, 8) as u8,
		7..=9 => rng.range(9, 16) as u8,
		10 => rng.range(17, 29) as u8,
		11 => 30,
		_ => 31,
	}
}
fn gen_tileset(rng: &mut Rng) -> Vec<C> {
	let mut tiles = vec![];
	let mut used = BTreeSet::new();
	let nl = match rng.below(6) {
		0 => 1,
		1..=3 => 2,
		_ => 3,
	};
	// contiguous run or levels with gaps
	let contiguous = rng.chance(1, 3);
	let z0 = pick_level(rng);
	for i in 0..nl {
		let z = if contiguous { (z0 as u64 + i).min(31) as u8 } else { pick_level(rng) };
		if !used.insert(z) {
			continue;
		}
		match rng.below(6) {
			0 => {
				let m = ((1u64 << z) - 1) as u32;
				tiles.push(*rng.pick(&[(0, 0, z), (m, m, z), (0, m, z), (m, 0, z), (m / 2, m / 2, z)]));
			}
			1 if z >= 9 => tiles.extend(shape_block_border(rng, z)),
			1..=3 if z >= 3 => tiles.extend(shape_irregular(rng, z)),
			_ => tiles.extend(shape_random(rng, z)),
		}
	}
	tiles.sort_by_key(|c| (c.2, c.0, c.1));
	tiles.dedup();
	tiles
}


// ---------------------------------------------------------------------------------------------
// containers from the INDEPENDENT encoders (harness/src/indep_formats.rs, written from the format
// specs): layouts the project's own writers never produce
// ---------------------------------------------------------------------------------------------
/// tile set made of Hilbert runs (consecutive PMTiles ids with one payload each), incl. runs that
/// cross a zoom boundary, plus a few single tiles; returns (tile map, runs as (id, length))
pub fn gen_runs(rng: &mut Rng) -> (ind::TileMap, Vec<(u64, u64)>) {
	let mut tiles = ind::TileMap::new();
	let mut ids: BTreeMap<u64, u64> = BTreeMap::new(); // id -> payload no
	let nruns = rng.range(1, 4);
	for k in 0..nruns {
		let z = match rng.below(8) {
			0 => rng.range(0, 2),
			1..=5 => rng.range(2, 9),
			_ => rng.range(10, 20),
		} as u8;
		let n = 1u64 << (2 * z as u32);
		let len = match rng.below(6) {
			0 => 1,
			1 => rng.range(2, 3),
			2..=4 => rng.range(4, 24),
			_ => rng.range(25, 70),
		};
		let start = match rng.below(6) {
			// ends exactly at / runs across the boundary to the next zoom level
			0 => ind::level_base(z + 1) - rng.range(1, len.min(n)),
			1 => ind::level_base(z + 1) - len.min(n),
			2 => ind::level_base(z),
			_ => ind::level_base(z) + rng.below(n),
		};
		for i in 0..len {
			ids.entry(start + i).or_insert(k);
		}
	}
	for _ in 0..rng.below(4) {
		let z = rng.range(0, 12) as u8;
		ids.entry(ind::level_base(z) + rng.below(1u64 << (2 * z as u32))).or_insert(100 + rng.below(3));
	}
	let mut runs: Vec<(u64, u64, u64)> = vec![];
	for (id, pno) in &ids {
		let c = ind::tile_coord(*id).unwrap();
		tiles.insert(c, format!("payload-{pno}").into_bytes());
		match runs.last_mut() {
			Some(l) if l.0 + l.1 == *id && l.2 == *pno => l.1 += 1,
			_ => runs.push((*id, 1, *pno)),
		}
	}
	(tiles, runs.into_iter().map(|r| (r.0, r.1)).collect())
}

fn map_of(tiles: &[C], rng: &mut Rng, few_payloads: bool) -> ind::TileMap {
	tiles.iter().map(|c| ((c.2, c.0, c.1), if few_payloads { format!("p{}", rng.below(2)).into_bytes() } else { payload(c) })).collect()
}
fn coords_of(m: &ind::TileMap) -> Vec<C> {
	let mut v: Vec<C> = m.keys().map(|(z, x, y)| (*x, *y, *z)).collect();
	v.sort_by_key(|c| (c.2, c.0, c.1));
	v
}

fn indep_case(out: &mut Out, ctx: &mut Ctx, rng: &mut Rng, kind: &str) {
	ctx.n += 1;
	let path = ctx.dir.join(format!("i{}.{kind}", ctx.n));
	let ps = path.to_str().unwrap().to_string();
	let mut exact = true;
	let mut member_order: Vec<C> = vec![];
	let (tiles, line): (Vec<C>, String) = match kind {
		"pmtiles" => {
			let (map, runs) = if rng.chance(3, 4) {
				gen_runs(rng)
			} else {
				let t = gen_tileset(rng);
				let m = map_of(&t, rng, true);
				let mut ids: Vec<u64> = m.keys().map(|(z, x, y)| ind::tile_id(*z, *x, *y).unwrap()).collect();
				ids.sort();
				(m, ids.into_iter().map(|i| (i, 1)).collect())
			};
			let mut ch = gen_pm_choices(rng);
			ch.merge_runs = true;
			ch.tcomp = 1;
			let enc = ind::encode_pmtiles(&map, &ch, rng);
			std::fs::write(&path, &enc.bytes).unwrap();
			out.count(&format!("indep_pmtiles_levels_{}", enc.levels_used));
			out.count_n("indep_pmtiles_max_run", enc.max_run);
			if enc.max_run > 1 {
				out.count("indep_pmtiles_with_runs");
			}
			if enc.shared_offsets > 0 {
				out.count("indep_pmtiles_shared_offsets");
			}
			(coords_of(&map), format!("C03 runs {}", runs.iter().map(|(i, n)| format!("{i}:{n}")).collect::<Vec<_>>().join(";")))
		}
		"versatiles" => {
			let t = gen_tileset(rng);
			let map = map_of(&t, rng, false);
			let ch = gen_vt_choices(rng);
			let enc = ind::encode_versatiles(&map, &ch, rng);
			std::fs::write(&path, &enc.bytes).unwrap();
			exact = false; // declared block ranges may be padded beyond the tiles
			out.count(&format!("indep_versatiles_range_mode_{}", ch.range_mode));
			let blocks: Vec<String> = enc.blocks.iter().map(|b| { let g = b.global(); format!("{}:{},{},{},{}", b.z, g.0, g.1, g.2, g.3) }).collect();
			(coords_of(&map), format!("C03 blocks {}", blocks.join(";")))
		}
		"mbtiles" => {
			let t: Vec<C> = gen_tileset(rng);
			let map = map_of(&t, rng, false);
			let ch = gen_mb_choices(rng);
			if let Err(e) = ind::encode_mbtiles(&path, &ind::tiles_to_rows(&map), &ch, rng) {
				out.notes.push(format!("independent mbtiles encoder failed: {e}"));
				return;
			}
			(coords_of(&map), format!("C03 cov mbtiles 0:1,1,0,0 {}", tiles_str(&coords_of(&map))))
		}
		"dir" => {
			// a directory tree created file by file in shuffled order (readdir order is not sorted)
			let t = gen_tileset(rng);
			let map = map_of(&t, rng, false);
			let mut files: Vec<(String, Vec<u8>)> = map.iter().map(|((z, x, y), p)| (format!("{z}/{x}/{y}.png"), p.clone())).collect();
			for i in (1..files.len()).rev() {
				let j = rng.below(i as u64 + 1) as usize;
				files.swap(i, j);
			}
			if rng.chance(1, 2) {
				files.push(("meta.json".into(), b"{}".to_vec()));
			}
			std::fs::create_dir_all(&path).unwrap();
			if let Err(e) = ind::write_dir(&path, &files) {
				out.notes.push(format!("independent directory writer failed: {e}"));
				return;
			}
			let order: Vec<C> = files.iter().filter(|f| f.0 != "meta.json").map(|f| { let p: Vec<u32> = f.0.trim_end_matches(".png").split('/').map(|x| x.parse().unwrap()).collect(); (p[1], p[2], p[0] as u8) }).collect();
			(coords_of(&map), format!("C03 members dir {}", tiles_str(&order)))
		}
		_ => {
			// tar: `./`-prefixed member names, directory members, meta file
			let t = gen_tileset(rng);
			let map = map_of(&t, rng, false);
			let dot = rng.chance(2, 3);
			let mut members = vec![];
			if rng.chance(1, 2) {
				members.push(ind::TarMember::file(if dot { "./meta.json" } else { "meta.json" }, b"{}"));
			}
			// member ORDER is a freedom of the archive (tar -r, other tools): sorted, reversed, shuffled,
			// levels alternating; plus duplicate members for one coordinate
			let mut keys: Vec<(u8, u32, u32)> = map.keys().cloned().collect();
			let order = rng.below(5);
			match order {
				0 => {}
				1 => keys.reverse(),
				2 => {
					for i in (1..keys.len()).rev() {
						let j = rng.below(i as u64 + 1) as usize;
						keys.swap(i, j);
					}
				}
				_ => {
					// round robin over the levels: 3/.., 4/.., 3/.., 4/.. …
					let mut per: BTreeMap<u8, Vec<(u8, u32, u32)>> = BTreeMap::new();
					for k in &keys {
						per.entry(k.0).or_default().push(*k);
					}
					if order == 4 {
						for v in per.values_mut() {
							v.reverse();
						}
					}
					let mut out_keys = vec![];
					let mut i = 0;
					loop {
						let mut any = false;
						for v in per.values() {
							if let Some(k) = v.get(i) {
								out_keys.push(*k);
								any = true;
							}
						}
						if !any {
							break;
						}
						i += 1;
					}
					keys = out_keys;
				}
			}
			out.count(&format!("indep_tar_order_{}", ["sorted", "reversed", "shuffled", "levels_alternating", "levels_alternating_rev"][order as usize]));
			if rng.chance(1, 3) && !keys.is_empty() {
				let d = keys[rng.below(keys.len() as u64) as usize];
				keys.push(d); // the same coordinate once more at the end
				out.count("indep_tar_duplicate_member");
			}
			member_order = keys.iter().map(|(z, x, y)| (*x, *y, *z)).collect();
			for (z, x, y) in &keys {
				let p = &map[&(*z, *x, *y)];
				let mut m = ind::TarMember::file(&format!("{}{z}/{x}/{y}.png", if dot { "./" } else { "" }), p);
				m.use_prefix = rng.chance(1, 4);
				members.push(m);
			}
			match ind::encode_tar(&members, rng.range(2, 4) as usize) {
				Ok(b) => std::fs::write(&path, b).unwrap(),
				Err(e) => {
					out.notes.push(format!("independent tar encoder failed: {e}"));
					return;
				}
			}
			if dot {
				out.count("indep_tar_dot_prefix");
			}
			(coords_of(&map), format!("C03 members tar {}", tiles_str(&member_order)))
		}
	};
	out.count(&format!("indep_{kind}"));
	let r = catch(|| ctx.rt.block_on(get_reader(&ps)));
	let nontrivial = tiles.len() > 1;
	match r {
		Ok(Ok(rd)) => judge(out, ctx, kind, "indep", rd.as_ref(), &tiles, &line, exact, nontrivial, None),
		Ok(Err(e)) => {
			out.case(&line, "err", nontrivial);
			out.oracle(false, &format!("C03 open: spec-valid {kind} container from the independent encoder cannot be opened: {}", trunc(&format!("{e:#}"), 160)), json!({"kind": "open_err", "format": kind, "origin": "indep"}), json!({"case": line, "file_hex": if std::fs::metadata(&path).map_or(0, |m| m.len()) < 4000 { ind::hexs(&std::fs::read(&path).unwrap_or_default()) } else { "too large".into() }}));
		}
		Err(p) => {
			out.case(&line, "panic", nontrivial);
			out.oracle(false, &format!("C03 open: opening a spec-valid {kind} container from the independent encoder panicked: {}", trunc(&p, 160)), json!({"kind": "open_panic", "format": kind, "origin": "indep"}), json!({"case": line}));
		}
	}
	let _ = std::fs::remove_file(&path);
	let _ = std::fs::remove_dir_all(&path);
}

/// replay of `C03 members <tar|dir> <x,y,z;…>`: the container lists its tiles in exactly this order
fn replay_members(out: &mut Out, ctx: &mut Ctx, kind: &str, spec: &str) {
	let order: Vec<C> = spec.split(';').map(|s| { let p: Vec<&str> = s.split(',').collect(); (p[0].parse().unwrap(), p[1].parse().unwrap(), p[2].parse().unwrap()) }).collect();
	ctx.n += 1;
	let path = ctx.dir.join(format!("m{}.{kind}", ctx.n));
	let line = format!("C03 members {kind} {spec}");
	if kind == "dir" {
		let files: Vec<(String, Vec<u8>)> = order.iter().map(|c| (format!("{}/{}/{}.png", c.2, c.0, c.1), payload(c))).collect();
		std::fs::create_dir_all(&path).unwrap();
		ind::write_dir(&path, &files).unwrap();
	} else {
		let members: Vec<ind::TarMember> = order.iter().map(|c| ind::TarMember::file(&format!("{}/{}/{}.png", c.2, c.0, c.1), &payload(c))).collect();
		std::fs::write(&path, ind::encode_tar(&members, 2).unwrap()).unwrap();
	}
	let mut tiles = order.clone();
	tiles.sort_by_key(|c| (c.2, c.0, c.1));
	tiles.dedup();
	match catch(|| ctx.rt.block_on(get_reader(path.to_str().unwrap()))) {
		Ok(Ok(rd)) => judge(out, ctx, kind, "indep", rd.as_ref(), &tiles, &line, true, true, None),
		_ => {
			out.case(&line, "err", true);
			out.oracle(false, "C03 open: container with the given member order cannot be opened", json!({"kind": "open_err", "format": kind, "origin": "indep"}), json!({"case": line}));
		}
	}
	let _ = std::fs::remove_file(&path);
	let _ = std::fs::remove_dir_all(&path);
}

/// replay of `C03 runs id:n;…` – one payload per run, written with run lengths by the independent encoder
fn replay_runs(out: &mut Out, ctx: &mut Ctx, spec: &str) {
	let mut map = ind::TileMap::new();
	for (k, t) in spec.split(';').enumerate() {
		let (a, b) = t.split_once(':').unwrap();
		let (id, n): (u64, u64) = (a.parse().unwrap(), b.parse().unwrap());
		for i in 0..n {
			map.insert(ind::tile_coord(id + i).unwrap(), format!("payload-{k}").into_bytes());
		}
	}
	let mut ch = ind::PmChoices::plain(1, 1);
	ch.merge_runs = true;
	let enc = ind::encode_pmtiles(&map, &ch, &mut Rng::new(1));
	ctx.n += 1;
	let path = ctx.dir.join(format!("r{}.pmtiles", ctx.n));
	std::fs::write(&path, &enc.bytes).unwrap();
	let line = format!("C03 runs {spec}");
	let tiles = coords_of(&map);
	match catch(|| ctx.rt.block_on(get_reader(path.to_str().unwrap()))) {
		Ok(Ok(rd)) => judge(out, ctx, "pmtiles", "indep", rd.as_ref(), &tiles, &line, true, true, None),
		_ => {
			out.case(&line, "err", true);
			out.oracle(false, "C03 open: pmtiles container with run lengths cannot be opened", json!({"kind": "open_err", "format": "pmtiles", "origin": "indep"}), json!({"case": line}));
		}
	}
	let _ = std::fs::remove_file(&path);
}

// ---------------------------------------------------------------------------------------------
// pipelines
// ---------------------------------------------------------------------------------------------
fn pipeline_case(out: &mut Out, rt: &tokio::runtime::Runtime, id: &mut Ident, w: &World, rpn: &str) {
	// model side: coverage of the built operation
	run_in_world(rt, out, id, w, "C03p", "P", rpn, "");
	let line = format!("C03p P {rpn} {}", w.env_string());
	let op = match build_op(rt, w, rpn) {
		Ok(Ok(o)) => o,
		_ => return,
	};
	let cover = op.get_parameters().bbox_pyramid.clone();
	let got = norm_pyr(&cover);
	let mut e: Option<String> = None;
	let mut probes: BTreeSet<(u32, u32, u8)> = BTreeSet::new();
	for s in &w.specs {
		for (z, x, y) in s.tiles.keys() {
			probes.insert((*x, *y, *z));
		}
	}
	for z in 0u8..32 {
		if let Some((x0, y0, x1, y1)) = got[z as usize] {
			if (x1 - x0 + 1) as u64 * (y1 - y0 + 1) as u64 > 600 { // tiles in the box (a one-column box of 2^30 rows is not small)
				continue;
			}
			let m = ((1u64 << z) - 1) as u32;
			for y in y0.saturating_sub(2)..=((y1 as u64 + 2).min(m as u64) as u32) {
				for x in x0.saturating_sub(2)..=((x1 as u64 + 2).min(m as u64) as u32) {
					probes.insert((x, y, z));
				}
			}
		}
	}
	let mut hits = 0;
	for (x, y, z) in &probes {
		let c = TileCoord3::new(*x, *y, *z).unwrap();
		if let Ok(Ok(Some(_))) = catch(|| rt.block_on(op.get_tile_data(&c))) {
			hits += 1;
			if !cover.contains_coord(&c) && e.is_none() {
				e = Some(format!("the operation returns a tile at ({x},{y},{z}) outside its advertised level box {:?}", got[*z as usize]));
			}
		}
	}
	// streams over the grown level boxes must stay inside as well
	for z in 0u8..32 {
		let levels: BTreeSet<u8> = probes.iter().map(|p| p.2).collect();
		if !levels.contains(&z) {
			continue;
		}
		let m = ((1u64 << z) - 1) as u32;
		let (x0, y0, x1, y1) = match got[z as usize] {
			Some(b) => b,
			None => {
				let v: Vec<_> = probes.iter().filter(|p| p.2 == z).collect();
				(v.iter().map(|p| p.0).min().unwrap(), v.iter().map(|p| p.1).min().unwrap(), v.iter().map(|p| p.0).max().unwrap(), v.iter().map(|p| p.1).max().unwrap())
			}
		};
		if (x1 - x0 + 1) as u64 * (y1 - y0 + 1) as u64 > 600 { // tiles in the box (a one-column box of 2^30 rows is not small)
			continue;
		}
		let b = TileBBox::new(z, x0.saturating_sub(2), y0.saturating_sub(2), (x1 as u64 + 2).min(m as u64) as u32, (y1 as u64 + 2).min(m as u64) as u32).unwrap();
		if let Ok(v) = catch(|| rt.block_on(async { op.get_tile_stream(b.clone()).await.collect().await })) {
			for (c, _) in v {
				if !cover.contains_coord(&c) && e.is_none() {
					e = Some(format!("the operation streams a tile at {c:?} outside its advertised level box {:?}", got[z as usize]));
				}
			}
		}
	}
	out.count_n("pipeline_probe_hits", hits);
	let ops: String = rpn.chars().filter(|c| c.is_ascii_uppercase()).collect::<BTreeSet<char>>().into_iter().collect();
	out.oracle(e.is_none(), &format!("C03 pipeline: {}", e.clone().unwrap_or_default()), json!({"kind": "pipeline_outside", "ops": ops}), json!({"case": line}));
}

pub fn run(args: &Args) {
	quiet_panics();
	let mut out = Out::new(&args.out);
	out.rule = "containers: tile sets (single tiles, irregular clusters whose extreme rows avoid the first/middle/last column, random sparse clusters; levels 0..31 incl. border coordinates 0 and 2^z-1, contiguous levels and zoom gaps; exact or generous source pyramid) written with the real mbtiles/pmtiles/tar/directory/versatiles writers and re-opened with the real readers: advertised pyramid vs model and vs the exact per-level bounding box (equality; containment for versatiles), lookups of all stored tiles and over every advertised box grown by 2; pipelines: 2-4 sources (memory and containers) under random pipelines (filters, overlay, merge, update) built by the real PipelineFactory: coverage vs model, every returned tile inside the advertised pyramid. independent encoders (harness/src/indep_formats.rs): PMTiles with run lengths > 1 (Hilbert runs of 1..70 ids, runs ending at / crossing a zoom boundary), shared offsets, 1-3 directory levels; versatiles with padded/full block ranges, shuffled sparse block index; mbtiles (view/table, shuffled rows, zoom gaps); tar with ./-prefixed and prefix-field names - same oracle. non-trivial = more than one tile / pipeline with at least one operation".into();
	out.notes.push("checklist: 1 thresholds - 256-block borders (shape_block_border), levels 0/1/30/31 incl. corners, mbtiles three-column sampling (shape_irregular), zoom-31 i32 arithmetic; 2 faults after open - n.a. (coverage is computed at open; loud failure of later lookups is C02/C12); 3 payload classes - 1 byte / duplicates / 1500-byte duplicates / unique (empty payloads: known finding of C04); 4 option interplay - pipelines with random filter/overlay/merge/update nesting; converter options are C06; 5 reuse - containers written onto an existing container, every reader streamed twice; 6 scheduling - n.a. (coverage is order-insensitive; streams compared as sets); 7 HTTP - n.a.; 8 extreme coordinates - corners of levels 0/1/2/30/31, single tiles, gaps; 9 independent encoders - PMTiles runs/leaf levels/shared offsets, padded versatiles blocks, mbtiles views, ./ tar; 10 two paths - advertised box vs lookups vs streams over the advertised boxes, pipelines: lookup vs stream vs coverage".into());
	let dir = std::fs::canonicalize(&args.out).unwrap().join("c03files");
	std::fs::create_dir_all(&dir).unwrap();
	let rt = tokio::runtime::Builder::new_multi_thread().worker_threads(4).enable_all().build().unwrap();
	let mut ctx = Ctx { rt, dir: dir.clone(), n: 0 };
	let mut id = Ident::new();
	if let Some(p) = &args.replay {
		for line in std::fs::read_to_string(p).unwrap().lines() {
			let t: Vec<&str> = line.split(' ').collect();
			if t.len() == 5 && t[0] == "C03" && t[1] == "cov" {
				let tiles: Vec<C> = if t[4] == "-" {
					vec![]
				} else {
					t[4].split(';')
						.map(|s| {
							let p: Vec<&str> = s.split(',').collect();
							(p[0].parse().unwrap(), p[1].parse().unwrap(), p[2].parse().unwrap())
						})
						.collect()
				};
				let exact = exact_boxes(&tiles);
				let generous = t[3] != "-" && norm_pyr(&parse_pyr(t[3])) != exact;
				let (kind, emp) = match t[2].strip_suffix('0') { Some(k) => (k, true), None => (t[2], false) };
				container_case(&mut out, &mut ctx, kind, &tiles, generous, Some(emp));
			} else if t.len() == 4 && t[0] == "C03" && t[1] == "members" {
				replay_members(&mut out, &mut ctx, t[2], t[3]);
			} else if t.len() == 3 && t[0] == "C03" && t[1] == "runs" {
				replay_runs(&mut out, &mut ctx, t[2]);
			} else if t.len() >= 4 && t[0] == "C03p" {
				let specs = crate::tsrc::parse_env(t[3]);
				let w = World::build(&ctx.rt, &dir, &specs);
				pipeline_case(&mut out, &ctx.rt, &mut id, &w, t[2]);
				w.cleanup();
			}
		}
		let _ = std::fs::remove_dir_all(&dir);
		out.finish();
		return;
	}
	let mut rng = Rng::new(args.seed);
	// fixed boundary sets
	let m31 = 2147483647u32;
	let fixed: Vec<Vec<C>> = vec![
		vec![(0, 0, 0)],
		vec![(0, 0, 31)],
		vec![(m31, m31, 31)],
		vec![(m31 - 1, m31, 31), (m31, m31 - 2, 31)],
		vec![(0, 0, 0), (3, 2, 2), (1, 1, 5)],
		// extreme rows (0 and 9) in columns 1 and 7, sampled columns 0, 4, 8 hold rows 4..5 only
		vec![(0, 4, 4), (4, 5, 4), (8, 4, 4), (1, 0, 4), (7, 9, 4)],
		vec![(5, 5, 3), (0, 0, 30), (1073741823, 1073741823, 30)].into_iter().filter(|c| c.2 != 30 || c.0 == 0).collect(),
	];
	for tiles in &fixed {
		for kind in KINDS {
			container_case(&mut out, &mut ctx, kind, tiles, false, None);
		}
	}
	let n = args.n(130, 1500);
	for i in 0..n {
		let tiles = gen_tileset(&mut rng);
		for kind in KINDS {
			let generous = kind == "versatiles" && i % 2 == 1;
			container_case(&mut out, &mut ctx, kind, &tiles, generous, None);
		}
	}
	// spec-valid containers from the independent encoders
	for i in 0..args.n(240, 3000) {
		let kind = ["pmtiles", "pmtiles", "tar", "versatiles", "mbtiles", "tar", "pmtiles", "dir"][i % 8];
		indep_case(&mut out, &mut ctx, &mut rng, kind);
	}
	// pipelines
	let mut next = 1u64;
	let np = args.n(60, 600);
	for i in 0..np {
		let mut specs = gen_sources(&mut rng, &mut next, 2, 4, 24);
		// the slow-lookup leaf kinds (`mem^`, `pmtiles^`, `tar^`: lookups yield a coordinate-dependent number of times) exist for
		// C02's scheduling cases; coverage does not depend on scheduling, and C03 streams every advertised box twice, which
		// takes minutes over such leaves: use the plain kind here
		for s in specs.iter_mut() {
			s.kind = s.kind.replace('^', "");
		}
		let levels = levels_of(&specs);
		let w = World::build(&ctx.rt, &dir, &specs);
		if !w.usable() {
			out.count("world_unusable");
			w.cleanup();
			continue;
		}
		for _ in 0..3 {
			let depth = if args.thorough() { rng.range(1, 4) } else { rng.range(1, 3) } as u32;
			let rpn = gen_pipe(&mut rng, depth, specs.len(), &levels);
			pipeline_case(&mut out, &ctx.rt, &mut id, &w, &rpn);
		}
		// every single source as a trivial pipeline
		if i % 4 == 0 {
			for k in 0..specs.len() {
				pipeline_case(&mut out, &ctx.rt, &mut id, &w, &format!("L{k}"));
			}
		}
		w.cleanup();
	}
	let _ = std::fs::remove_dir_all(&dir);
	out.finish();
}
