//! In-memory tile source for the harness: an arbitrary finite map coordinate → stored bytes with
//! declared format / compression / coverage / TileJSON.  Uses the trait's default bbox stream.
use anyhow::Result;
use async_trait::async_trait;
use std::collections::BTreeMap;
use versatiles_core::{tilejson::TileJSON, types::*};

#[derive(Debug, Clone)]
pub struct MemSource {
	pub name: String,
	pub tiles: BTreeMap<(u8, u32, u32), Blob>, // (z, x, y) → stored (possibly compressed) bytes
	pub parameters: TilesReaderParameters,
	pub tilejson: TileJSON,
}

impl MemSource {
	/// coverage = exact bounding boxes of the given tiles
	pub fn new(name: &str, format: TileFormat, compression: TileCompression, tiles: Vec<(TileCoord3, Blob)>) -> MemSource {
		let mut pyramid = TileBBoxPyramid::new_empty();
		let mut map = BTreeMap::new();
		for (c, b) in tiles {
			pyramid.include_coord(&c);
			map.insert((c.z, c.x, c.y), b);
		}
		MemSource {
			name: name.to_string(),
			tiles: map,
			parameters: TilesReaderParameters::new(format, compression, pyramid),
			tilejson: TileJSON::default(),
		}
	}
	pub fn with_pyramid(mut self, pyramid: TileBBoxPyramid) -> Self {
		self.parameters.bbox_pyramid = pyramid;
		self
	}
	pub fn with_tilejson(mut self, tj: TileJSON) -> Self {
		self.tilejson = tj;
		self
	}
	pub fn coords(&self) -> Vec<TileCoord3> {
		self.tiles.keys().map(|(z, x, y)| TileCoord3::new(*x, *y, *z).unwrap()).collect()
	}
}

#[async_trait]
impl TilesReaderTrait for MemSource {
	fn get_source_name(&self) -> &str {
		&self.name
	}
	fn get_container_name(&self) -> &str {
		"memsrc"
	}
	fn get_parameters(&self) -> &TilesReaderParameters {
		&self.parameters
	}
	fn override_compression(&mut self, tile_compression: TileCompression) {
		self.parameters.tile_compression = tile_compression;
	}
	fn get_tilejson(&self) -> &TileJSON {
		&self.tilejson
	}
	async fn get_tile_data(&self, coord: &TileCoord3) -> Result<Option<Blob>> {
		Ok(self.tiles.get(&(coord.z, coord.x, coord.y)).cloned())
	}
}
