//! C17 – I/O part: a TileJSON document written into a versatiles / pmtiles / tar / directory
//! container comes back unchanged (zoom range and bounds only narrowed to the stored coverage), and
//! the `tiles.json` served by `versatiles serve` is valid JSON carrying that metadata plus a tiles URL
//! template and bounds / zoom consistent with the coverage.  Oracle-only (no model lines).
//!
//! Case lines
//!   `C17c <container> <compression> <hex of document JSON> <tiles>`
//!   `C17h <container> <hex of document JSON> <tiles>`
//! container ∈ versatiles|pmtiles|tar|directory (C17h: versatiles|pmtiles), compression ∈ none|gzip|brotli,
//! tiles = comma separated `z/x/y`.  Things not carried by the line are derived from it:
//! tile format = PBF when the document has vector_layers, else PNG; C17h compression = (document length mod 3).
use crate::common::*;
use crate::memsrc::MemSource;
use serde_json::{json, Map, Value};
use std::collections::BTreeSet;
use std::io::{Read, Write};
use std::path::{Path, PathBuf};
use std::time::{Duration, Instant};
use versatiles_container::{
	DirectoryTilesReader, DirectoryTilesWriter, PMTilesReader, PMTilesWriter, TarTilesReader, TarTilesWriter, TilesWriterTrait, VersaTilesReader,
	VersaTilesWriter,
};
use versatiles_core::{
	json::JsonValue,
	tilejson::TileJSON,
	types::*,
	utils::compress,
};

type Tile = (u8, u32, u32); // z, x, y

const CONTAINERS: [&str; 4] = ["versatiles", "pmtiles", "tar", "directory"];
const SPECIAL: [&str; 3] = ["bounds", "center", "vector_layers"];
const TOL: f64 = 1e-9;

// ---------------------------------------------------------------------------------------------
// generators
// ---------------------------------------------------------------------------------------------

fn gen_key(rng: &mut Rng) -> String {
	let k = match rng.below(4) {
		0 => (0..rng.range(1, 10)).map(|_| rng.range(0x61, 0x7a) as u8 as char).collect(),
		_ => super::gen_string(rng),
	};
	if SPECIAL.contains(&k.as_str()) {
		format!("{k}_")
	} else {
		k
	}
}

fn deg(rng: &mut Rng, lo: f64, hi: f64) -> f64 {
	let v = match rng.below(4) {
		0 => (lo + rng.below((hi - lo) as u64 + 1) as f64).floor(),
		1 => lo + (rng.below(((hi - lo) * 1e6) as u64 + 1) as f64) / 1e6,
		_ => lo + (hi - lo) * ((rng.next() >> 11) as f64 / (1u64 << 53) as f64),
	};
	v.clamp(lo, hi)
}

fn gen_bounds(rng: &mut Rng) -> [f64; 4] {
	match rng.below(12) {
		0 | 1 => [-180.0, -90.0, 180.0, 90.0],
		2 => [-180.0, -85.05112877980659, 180.0, 85.05112877980659],
		3..=5 => {
			// a large box: likely to overlap the stored tiles
			[deg(rng, -180.0, -60.0), deg(rng, -85.0, -30.0), deg(rng, 60.0, 180.0), deg(rng, 30.0, 85.0)]
		}
		6..=8 => {
			// any valid geographic box
			let w = deg(rng, -180.0, 179.0);
			let s = deg(rng, -90.0, 89.0);
			[w, s, deg(rng, w, 180.0), deg(rng, s, 90.0)]
		}
		9 => {
			// a half plane / quadrant
			let c = deg(rng, -60.0, 60.0);
			*rng.pick(&[[-180.0, -90.0, c, 90.0], [c, -90.0, 180.0, 90.0], [-180.0, c, 180.0, 90.0], [-180.0, -90.0, 180.0, c], [c, c, 180.0, 90.0]])
		}
		10 => {
			// odd: degenerate, inverted, out of range
			let a = deg(rng, -180.0, 180.0);
			let b = deg(rng, -90.0, 90.0);
			*rng.pick(&[[a, b, a, b], [180.0, 90.0, -180.0, -90.0], [-540.0, -100.0, 540.0, 100.0], [0.0, 0.0, 0.0, 0.0], [-0.0, -0.0, 0.0, 0.0], [a, b, -a, -b]])
		}
		_ => [super::gen_f64(rng), super::gen_f64(rng), super::gen_f64(rng), super::gen_f64(rng)],
	}
}

fn gen_layer_id(rng: &mut Rng) -> String {
	match rng.below(4) {
		0 => super::gen_string(rng),
		_ => (0..rng.range(1, 8)).map(|_| *rng.pick(b"abcxyzABC019_") as char).collect(),
	}
}

/// A generated TileJSON document as JSON text (produced by serde_json, i.e. by a standard encoder).
pub fn gen_doc(rng: &mut Rng) -> String {
	let mut m = Map::new();
	// string values
	const SKEYS: [&str; 10] = ["name", "description", "attribution", "version", "scheme", "legend", "template", "type", "format", "tilejson"];
	for _ in 0..rng.below(5) {
		let k = if rng.chance(2, 3) { rng.pick(&SKEYS).to_string() } else { gen_key(rng) };
		let v = match (k.as_str(), rng.below(3)) {
			("version", 0) => format!("{}.{}.{}", rng.below(20), rng.below(20), rng.below(20)),
			("tilejson", 0) => rng.pick(&["3.0.0", "2.2.0", "1.0.0"]).to_string(),
			("scheme", 0) => rng.pick(&["xyz", "tms"]).to_string(),
			_ => super::gen_string(rng),
		};
		m.insert(k, Value::String(v));
	}
	// list values
	const LKEYS: [&str; 3] = ["tiles", "data", "grids"];
	for _ in 0..rng.below(3) {
		let k = if rng.chance(1, 2) { rng.pick(&LKEYS).to_string() } else { gen_key(rng) };
		let n = match rng.below(4) {
			0 => 0,
			1 => 1,
			_ => rng.range(2, 4),
		};
		let v: Vec<Value> = (0..n).map(|_| Value::String(super::gen_string(rng))).collect();
		m.insert(k, Value::Array(v));
	}
	// byte values
	const BKEYS: [&str; 3] = ["fillzoom", "minzoom", "maxzoom"];
	for _ in 0..rng.below(4) {
		let k = if rng.chance(3, 4) { rng.pick(&BKEYS).to_string() } else { gen_key(rng) };
		let v = match (k.as_str(), rng.below(4)) {
			("minzoom", 0..=2) => rng.below(8),
			("maxzoom", 0..=2) => rng.range(2, 14),
			(_, 0) => *rng.pick(&[0u64, 1, 30, 31, 127, 128, 254, 255]),
			_ => rng.below(256),
		};
		m.insert(k, json!(v));
	}
	if rng.chance(3, 5) {
		let b = gen_bounds(rng);
		m.insert("bounds".into(), json!([b[0], b[1], b[2], b[3]]));
	}
	if rng.chance(2, 5) {
		let (lon, lat) = if rng.chance(5, 6) { (deg(rng, -180.0, 180.0), deg(rng, -90.0, 90.0)) } else { (super::gen_f64(rng), super::gen_f64(rng)) };
		m.insert("center".into(), json!([lon, lat, rng.below(31)]));
	}
	if rng.chance(2, 5) {
		let mut layers = vec![];
		for _ in 0..rng.below(4) {
			let mut l = Map::new();
			l.insert("id".into(), Value::String(gen_layer_id(rng)));
			let mut f = Map::new();
			for _ in 0..rng.below(4) {
				let k = if rng.chance(2, 3) { gen_layer_id(rng) } else { super::gen_string(rng) };
				let v = if rng.chance(1, 2) { rng.pick(&["String", "Number", "Boolean"]).to_string() } else { super::gen_string(rng) };
				f.insert(k, Value::String(v));
			}
			l.insert("fields".into(), Value::Object(f));
			if rng.chance(1, 2) {
				l.insert("description".into(), Value::String(super::gen_string(rng)));
			}
			if rng.chance(1, 2) {
				l.insert("minzoom".into(), json!(if rng.chance(5, 6) { rng.below(31) } else { rng.below(256) }));
			}
			if rng.chance(1, 2) {
				l.insert("maxzoom".into(), json!(if rng.chance(5, 6) { rng.below(31) } else { rng.below(256) }));
			}
			layers.push(Value::Object(l));
		}
		m.insert("vector_layers".into(), Value::Array(layers));
	}
	serde_json::to_string(&Value::Object(m)).unwrap()
}

/// 1..6 tiles at 1..3 zoom levels (z ≤ 8); tiles of one level are mostly close to each other so that
/// the level's bounding box stays small.
fn gen_tiles(rng: &mut Rng) -> Vec<Tile> {
	let nz = rng.range(1, 3) as usize;
	let mut zs = BTreeSet::new();
	while zs.len() < nz {
		zs.insert(rng.below(9) as u8);
	}
	let zs: Vec<u8> = zs.into_iter().collect();
	let total = rng.range(zs.len() as u64, 6) as usize;
	let mut set = BTreeSet::new();
	let mut bases: Vec<(u32, u32)> = vec![];
	// a common geographic anchor so that the levels overlap more often than not
	let (ax, ay) = (rng.next() as u32, rng.next() as u32);
	for z in &zs {
		let n = 1u32 << z;
		let b = if rng.chance(2, 3) { ((ax as u64 * n as u64 >> 32) as u32, (ay as u64 * n as u64 >> 32) as u32) } else { (rng.below(n as u64) as u32, rng.below(n as u64) as u32) };
		bases.push(b);
		set.insert((*z, b.0, b.1));
	}
	let mut guard = 0;
	while set.len() < total && guard < 50 {
		guard += 1;
		let i = rng.below(zs.len() as u64) as usize;
		let n = 1u32 << zs[i];
		let spread = if zs[i] <= 5 && rng.chance(1, 6) { n } else { 4 };
		let x = (bases[i].0 + rng.below(spread as u64) as u32).min(n - 1);
		let y = (bases[i].1 + rng.below(spread as u64) as u32).min(n - 1);
		set.insert((zs[i], x, y));
	}
	set.into_iter().collect()
}

// ---------------------------------------------------------------------------------------------
// helpers
// ---------------------------------------------------------------------------------------------

fn tiles_str(t: &[Tile]) -> String {
	t.iter().map(|(z, x, y)| format!("{z}/{x}/{y}")).collect::<Vec<_>>().join(",")
}

fn parse_tiles(s: &str) -> Option<Vec<Tile>> {
	let mut v = vec![];
	for p in s.split(',') {
		let q: Vec<&str> = p.split('/').collect();
		if q.len() != 3 {
			return None;
		}
		let (z, x, y) = (q[0].parse::<u8>().ok()?, q[1].parse::<u32>().ok()?, q[2].parse::<u32>().ok()?);
		if z > 20 || x >= (1u32 << z) || y >= (1u32 << z) {
			return None;
		}
		v.push((z, x, y));
	}
	if v.is_empty() {
		None
	} else {
		Some(v)
	}
}

fn comp_name(c: TileCompression) -> &'static str {
	match c {
		TileCompression::Uncompressed => "none",
		TileCompression::Gzip => "gzip",
		TileCompression::Brotli => "brotli",
	}
}

fn parse_comp(s: &str) -> Option<TileCompression> {
	Some(match s {
		"none" => TileCompression::Uncompressed,
		"gzip" => TileCompression::Gzip,
		"brotli" => TileCompression::Brotli,
		_ => return None,
	})
}

fn http_comp(doc: &str) -> TileCompression {
	[TileCompression::Uncompressed, TileCompression::Gzip, TileCompression::Brotli][doc.len() % 3]
}

/// the real JSON value as a serde_json value (structural copy, no text involved)
fn to_serde(v: &JsonValue) -> Value {
	match v {
		JsonValue::Null => Value::Null,
		JsonValue::Boolean(b) => Value::Bool(*b),
		JsonValue::Number(n) => serde_json::Number::from_f64(*n).map_or(Value::Null, Value::Number),
		JsonValue::String(s) => Value::String(s.clone()),
		JsonValue::Array(a) => Value::Array(a.0.iter().map(to_serde).collect()),
		JsonValue::Object(o) => Value::Object(o.0.iter().map(|(k, x)| (k.clone(), to_serde(x))).collect()),
	}
}

fn obj_text(o: &Map<String, Value>) -> String {
	trunc(&Value::Object(o.clone()).to_string(), 600)
}

fn real_object(t: &TileJSON) -> Map<String, Value> {
	match to_serde(&JsonValue::Object(t.as_object())) {
		Value::Object(m) => m,
		_ => Map::new(),
	}
}

fn num4(v: &Value) -> Option<[f64; 4]> {
	let a = v.as_array()?;
	if a.len() != 4 {
		return None;
	}
	let mut r = [0.0; 4];
	for i in 0..4 {
		r[i] = a[i].as_f64()?;
	}
	Some(r)
}

fn byte_of(v: Option<&Value>) -> Option<u8> {
	match v.and_then(|x| x.as_f64()) {
		Some(n) if (0.0..=255.0).contains(&n) && n.fract() == 0.0 => Some(n as u8),
		_ => None,
	}
}

/// The GIVEN TileJSON as a JSON object, derived from the document text with the standard parser and
/// the data model of the property only (string / list-of-strings / byte values, bounds = 4 numbers,
/// center = lon, lat, byte zoom, vector_layers = map id → {fields, description?, minzoom?, maxzoom?},
/// "tilejson" defaulting to "3.0.0").  `Err` = the document is outside that model.
fn expected_object(doc: &str) -> Result<Map<String, Value>, String> {
	let v: Value = serde_json::from_str(doc).map_err(|e| format!("not JSON: {e}"))?;
	let m = v.as_object().ok_or("not an object")?;
	let byte = |x: &Value, what: &str| byte_of(Some(x)).map(|b| json!(b)).ok_or(format!("{what} is not a byte"));
	let mut g = Map::new();
	g.insert("tilejson".into(), json!("3.0.0"));
	for (k, x) in m {
		let y = match k.as_str() {
			"bounds" => json!(num4(x).ok_or("bounds are not four numbers")?),
			"center" => match x.as_array() {
				Some(a) if a.len() == 3 && a[0].is_number() && a[1].is_number() => json!([a[0].as_f64(), a[1].as_f64(), byte(&a[2], "center zoom")?]),
				_ => return Err("center is not [lon, lat, zoom]".into()),
			},
			"vector_layers" => {
				let mut layers = std::collections::BTreeMap::new();
				for l in x.as_array().ok_or("vector_layers is not an array")? {
					let l = l.as_object().ok_or("layer is not an object")?;
					let id = l.get("id").and_then(|i| i.as_str()).ok_or("layer without id")?;
					let mut o = Map::new();
					o.insert("id".into(), json!(id));
					let mut f = Map::new();
					if let Some(fs) = l.get("fields") {
						for (fk, fv) in fs.as_object().ok_or("fields is not an object")? {
							f.insert(fk.clone(), json!(fv.as_str().ok_or("field type is not a string")?));
						}
					}
					o.insert("fields".into(), Value::Object(f));
					if let Some(d) = l.get("description") {
						o.insert("description".into(), json!(d.as_str().ok_or("description is not a string")?));
					}
					for z in ["minzoom", "maxzoom"] {
						if let Some(b) = l.get(z) {
							o.insert(z.into(), byte(b, z)?);
						}
					}
					layers.insert(id.to_string(), Value::Object(o)); // a repeated id: the last one counts
				}
				if layers.is_empty() {
					continue; // no layers = no key
				}
				Value::Array(layers.into_values().collect())
			}
			_ => match x {
				Value::String(_) => x.clone(),
				Value::Array(a) if a.iter().all(|e| e.is_string()) => x.clone(),
				Value::Number(_) => byte(x, k)?,
				_ => return Err(format!("value of {k:?} is neither string, list of strings nor byte")),
			},
		};
		g.insert(k.clone(), y);
	}
	Ok(g)
}

/// geographic box of one tile, written from the web-mercator tiling definition
fn tile_geo(z: u8, x: u32, y: u32) -> [f64; 4] {
	let n = 2f64.powi(z as i32);
	let lon = |x: f64| x / n * 360.0 - 180.0;
	let lat = |y: f64| (std::f64::consts::PI * (1.0 - 2.0 * y / n)).sinh().atan().to_degrees();
	[lon(x as f64), lat(y as f64 + 1.0), lon(x as f64 + 1.0), lat(y as f64)]
}

/// union of the geographic boxes of all stored tiles
fn coverage_geo(tiles: &[Tile]) -> [f64; 4] {
	let mut r = [f64::INFINITY, f64::INFINITY, f64::NEG_INFINITY, f64::NEG_INFINITY];
	for (z, x, y) in tiles {
		let g = tile_geo(*z, *x, *y);
		r = [r[0].min(g[0]), r[1].min(g[1]), r[2].max(g[2]), r[3].max(g[3])];
	}
	r
}

/// a ⊆ b componentwise, with tolerance
fn inside(a: &[f64; 4], b: &[f64; 4], tol: f64) -> bool {
	a.iter().all(|x| x.is_finite()) && a[0] >= b[0] - tol && a[1] >= b[1] - tol && a[2] <= b[2] + tol && a[3] <= b[3] + tol
}

fn zoom_range(tiles: &[Tile]) -> (u8, u8) {
	(tiles.iter().map(|t| t.0).min().unwrap(), tiles.iter().map(|t| t.0).max().unwrap())
}

/// the document has at least two of {bounds, center, vector_layers, a list value, a byte value}
fn nontrivial(g: &Map<String, Value>) -> bool {
	let mut n = SPECIAL.iter().filter(|k| g.contains_key(**k)).count();
	if g.iter().any(|(k, v)| !SPECIAL.contains(&k.as_str()) && v.is_array()) {
		n += 1;
	}
	if g.iter().any(|(k, v)| !SPECIAL.contains(&k.as_str()) && v.is_number()) {
		n += 1;
	}
	n >= 2
}

fn runtime() -> tokio::runtime::Runtime {
	tokio::runtime::Builder::new_multi_thread().worker_threads(2).enable_all().build().unwrap()
}

fn scratch(out: &Out) -> PathBuf {
	let d = out.dir().join("c17io");
	std::fs::create_dir_all(&d).unwrap();
	std::fs::canonicalize(&d).unwrap()
}

fn remove(p: &Path) {
	if p.is_dir() {
		let _ = std::fs::remove_dir_all(p);
	} else {
		let _ = std::fs::remove_file(p);
	}
}

/// the in-memory source for a case: tiny distinct blobs, stored compressed as declared
fn build_source(doc: &str, comp: TileCompression, tiles: &[Tile]) -> Result<MemSource, String> {
	let tj = match catch(|| TileJSON::try_from(doc)) {
		Ok(Ok(t)) => t,
		Ok(Err(e)) => return Err(format!("rejected: {e}")),
		Err(m) => return Err(format!("panic: {m}")),
	};
	let format = if tj.vector_layers.0.is_empty() { TileFormat::PNG } else { TileFormat::PBF };
	let mut v = vec![];
	for (z, x, y) in tiles {
		let raw = vec![0x1a, *z, *x as u8, (*x >> 8) as u8, *y as u8, (*y >> 8) as u8, 0x42];
		let blob = compress(Blob::from(raw), &comp).map_err(|e| format!("compress: {e}"))?;
		v.push((TileCoord3::new(*x, *y, *z).map_err(|e| e.to_string())?, blob));
	}
	Ok(MemSource::new("c17io", format, comp, v).with_tilejson(tj))
}

fn container_path(dir: &Path, stem: &str, container: &str) -> PathBuf {
	match container {
		"directory" => dir.join(stem),
		c => dir.join(format!("{stem}.{c}")),
	}
}

/// real writer; `Err((what, message))`
fn write_container(rt: &tokio::runtime::Runtime, src: &mut MemSource, container: &str, path: &Path) -> Result<(), (&'static str, String)> {
	write_container_opt(rt, src, container, path, true)
}

/// `clean = false`: whatever is at `path` stays there (class "pre-existing state")
fn write_container_opt(rt: &tokio::runtime::Runtime, src: &mut MemSource, container: &str, path: &Path, clean: bool) -> Result<(), (&'static str, String)> {
	if clean {
		remove(path);
	}
	let r = catch(|| {
		rt.block_on(async {
			match container {
				"versatiles" => VersaTilesWriter::write_to_path(src, path).await,
				"pmtiles" => PMTilesWriter::write_to_path(src, path).await,
				"tar" => TarTilesWriter::write_to_path(src, path).await,
				"directory" => DirectoryTilesWriter::write_to_path(src, path).await,
				_ => Err(anyhow::anyhow!("unknown container")),
			}
		})
	});
	match r {
		Ok(Ok(())) => Ok(()),
		Ok(Err(e)) => Err(("write-failed", format!("{e:#}"))),
		Err(m) => Err(("panic", format!("writer: {m}"))),
	}
}

/// real reader → the TileJSON it hands out
fn read_container(rt: &tokio::runtime::Runtime, container: &str, path: &Path) -> Result<TileJSON, (&'static str, String)> {
	let r = catch(|| {
		rt.block_on(async {
			Ok::<TileJSON, anyhow::Error>(match container {
				"versatiles" => VersaTilesReader::open_path(path).await?.get_tilejson().clone(),
				"pmtiles" => PMTilesReader::open_path(path).await?.get_tilejson().clone(),
				"tar" => TarTilesReader::open_path(path)?.get_tilejson().clone(),
				"directory" => DirectoryTilesReader::open_path(path)?.get_tilejson().clone(),
				_ => anyhow::bail!("unknown container"),
			})
		})
	});
	match r {
		Ok(Ok(t)) => Ok(t),
		Ok(Err(e)) => Err(("open-failed", format!("{e:#}"))),
		Err(m) => Err(("panic", format!("reader: {m}"))),
	}
}

// ---------------------------------------------------------------------------------------------
// containers
// ---------------------------------------------------------------------------------------------

struct Fail {
	what: &'static str,
	msg: String,
	detail: Value,
}

struct CVerdict {
	nontrivial: bool,
	fail: Option<Fail>,
	dir_narrower: bool, // directory bounds strictly inside (all-levels coverage ∩ given)
}

/// The rule of the property for containers.  `derives` = the reader narrows to the stored coverage
/// (directory); otherwise the returned document must equal the given one.
fn container_rule(g: &Map<String, Value>, r: &Map<String, Value>, tiles: &[Tile], derives: bool, dir_narrower: &mut bool) -> Option<(&'static str, String)> {
	const NARROW: [&str; 3] = ["bounds", "minzoom", "maxzoom"];
	// (a) everything else is handed back unchanged, nothing is invented
	for (k, v) in g.iter() {
		if derives && NARROW.contains(&k.as_str()) {
			continue;
		}
		match r.get(k) {
			None => return Some(("missing-key", format!("key {k:?} is missing"))),
			Some(w) if !json_eq(v, w) => {
				if k == "bounds" {
					if let (Some(a), Some(b)) = (num4(v), num4(w)) {
						if !inside(&b, &a, 0.0) {
							return Some(("bounds-widened", format!("bounds {b:?} not inside the given {a:?}")));
						}
					}
				}
				if let (true, Some(a), Some(b)) = (k == "minzoom", byte_of(Some(v)), byte_of(Some(w))) {
					if b < a {
						return Some(("zoom-widened", format!("minzoom {b} < given {a}")));
					}
				}
				if let (true, Some(a), Some(b)) = (k == "maxzoom", byte_of(Some(v)), byte_of(Some(w))) {
					if b > a {
						return Some(("zoom-widened", format!("maxzoom {b} > given {a}")));
					}
				}
				return Some(("changed-value", format!("value of key {k:?} changed")));
			}
			_ => {}
		}
	}
	for k in r.keys() {
		if !g.contains_key(k) && !(derives && NARROW.contains(&k.as_str())) {
			return Some(("extra-key", format!("key {k:?} was not given")));
		}
	}
	if !derives {
		return None;
	}
	// (b) bounds only narrowed, and only to the stored coverage
	let cov = coverage_geo(tiles);
	let gb = g.get("bounds");
	match (gb, r.get("bounds")) {
		(Some(_), None) => return Some(("missing-key", "key \"bounds\" is missing".into())),
		(_, Some(rbv)) => {
			let rb = match num4(rbv) {
				Some(b) if b.iter().all(|x| x.is_finite()) => b,
				_ => return Some(("changed-value", "bounds are not four finite numbers".into())),
			};
			let mut limit = cov;
			if let Some(gbv) = gb {
				match num4(gbv) {
					Some(a) => {
						if !inside(&rb, &a, 0.0) {
							return Some(("bounds-widened", format!("bounds {rb:?} not inside the given {a:?}")));
						}
						limit = [cov[0].max(a[0]), cov[1].max(a[1]), cov[2].min(a[2]), cov[3].min(a[3])];
					}
					None => return Some(("changed-value", "given bounds unreadable".into())),
				}
			}
			if !inside(&rb, &cov, TOL) {
				return Some(("bounds-widened", format!("bounds {rb:?} not inside the coverage {cov:?}")));
			}
			if rb[0] > limit[0] + TOL || rb[1] > limit[1] + TOL || rb[2] < limit[2] - TOL || rb[3] < limit[3] - TOL {
				*dir_narrower = true;
			}
		}
		(None, None) => {}
	}
	// (c) zoom range = given ∩ stored
	let (lo, hi) = zoom_range(tiles);
	let want_min = byte_of(g.get("minzoom")).map_or(lo, |m| m.max(lo));
	let want_max = byte_of(g.get("maxzoom")).map_or(hi, |m| m.min(hi));
	for (key, want, widened) in [("minzoom", want_min, -1i32), ("maxzoom", want_max, 1)] {
		match r.get(key) {
			None => return Some(("missing-key", format!("key {key:?} is missing"))),
			Some(v) => match byte_of(Some(v)) {
				Some(b) if b == want => {}
				Some(b) if (b as i32 - want as i32) * widened > 0 => return Some(("zoom-widened", format!("{key} {b}, expected {want} (given ∩ stored {lo}..{hi})"))),
				Some(b) => return Some(("changed-value", format!("{key} {b}, expected {want} (given ∩ stored {lo}..{hi})"))),
				None => return Some(("changed-value", format!("{key} is not a byte"))),
			},
		}
	}
	None
}

fn eval_container(rt: &tokio::runtime::Runtime, dir: &Path, container: &str, comp: TileCompression, doc: &str, tiles: &[Tile]) -> Result<CVerdict, String> {
	let g = expected_object(doc)?;
	let nt = nontrivial(&g);
	let path = container_path(dir, "c", container);
	let mut src = match build_source(doc, comp, tiles) {
		Ok(s) => s,
		Err(m) => {
			// expressible by the model, yet the real `TileJSON::try_from` does not take it
			return Ok(CVerdict { nontrivial: nt, fail: Some(Fail { what: "document-rejected", msg: m, detail: json!({"given": obj_text(&g)}) }), dir_narrower: false });
		}
	};
	let fail = |what: &'static str, msg: String, returned: Value| {
		Ok(CVerdict { nontrivial: nt, fail: Some(Fail { what, msg, detail: json!({"given": obj_text(&g), "returned": returned}) }), dir_narrower: false })
	};
	if let Err((what, msg)) = write_container(rt, &mut src, container, &path) {
		remove(&path);
		return fail(what, msg, Value::Null);
	}
	let r = read_container(rt, container, &path);
	remove(&path);
	let r = match r {
		Ok(t) => match catch(|| real_object(&t)) {
			Ok(o) => o,
			Err(m) => return fail("panic", format!("as_object: {m}"), Value::Null),
		},
		Err((what, msg)) => return fail(what, msg, Value::Null),
	};
	let mut narrower = false;
	match container_rule(&g, &r, tiles, container == "directory", &mut narrower) {
		None => Ok(CVerdict { nontrivial: nt, fail: None, dir_narrower: narrower }),
		Some((what, msg)) => fail(what, msg, json!(obj_text(&r))),
	}
}

fn c_line(container: &str, comp: TileCompression, doc: &str, tiles: &[Tile]) -> String {
	format!("C17c {container} {} {} {}", comp_name(comp), hex(doc.as_bytes()), tiles_str(tiles))
}

/// greedy shrinking of a failing container case (same `what`): drop tiles, drop keys, drop layers
fn minimise_container(rt: &tokio::runtime::Runtime, dir: &Path, container: &str, comp: TileCompression, doc: &str, tiles: &[Tile], what: &str) -> (String, Vec<Tile>) {
	let still = |d: &str, t: &[Tile]| matches!(eval_container(rt, dir, container, comp, d, t), Ok(CVerdict { fail: Some(ref f), .. }) if f.what == what);
	let mut tiles = tiles.to_vec();
	let mut doc = doc.to_string();
	let mut budget = 60;
	let mut i = 0;
	while i < tiles.len() && tiles.len() > 1 && budget > 0 {
		let mut t = tiles.clone();
		t.remove(i);
		budget -= 1;
		if still(&doc, &t) {
			tiles = t;
		} else {
			i += 1;
		}
	}
	if let Ok(Value::Object(mut m)) = serde_json::from_str::<Value>(&doc) {
		for k in m.keys().cloned().collect::<Vec<_>>() {
			if budget == 0 {
				break;
			}
			let mut m2 = m.clone();
			m2.remove(&k);
			let d = Value::Object(m2.clone()).to_string();
			budget -= 1;
			if still(&d, &tiles) {
				m = m2;
				doc = d;
			}
		}
	}
	(doc, tiles)
}

fn emit_container(out: &mut Out, rt: &tokio::runtime::Runtime, dir: &Path, container: &str, comp: TileCompression, doc: &str, tiles: &[Tile], minimise: bool) {
	let line = c_line(container, comp, doc, tiles);
	let v = match eval_container(rt, dir, container, comp, doc, tiles) {
		Ok(v) => v,
		Err(m) => {
			// the document is not a TileJSON for the real parser: outside the quantifier
			out.count("doc_not_expressible");
			out.notes.push(format!("C17c document outside the TileJSON model ({}): {}", trunc(&m, 120), trunc(&line, 200)));
			return;
		}
	};
	out.eval(&line, v.nontrivial);
	out.count(&format!("container_{container}"));
	if v.nontrivial {
		out.count("container_nontrivial");
	}
	out.count(&format!("compression_{}", comp_name(comp)));
	if v.dir_narrower {
		out.count("directory_bounds_narrower_than_all_levels_coverage");
	}
	match v.fail {
		None => out.oracle(true, "", json!(null), json!(null)),
		Some(f) => {
			let mut detail = f.detail;
			detail["case"] = json!(line);
			detail["message"] = json!(f.msg);
			let n_before = out.dist.get(&format!("fail_{container}_{}", f.what)).copied().unwrap_or(0);
			out.count(&format!("fail_{container}_{}", f.what));
			if minimise && n_before < 3 {
				let (d, t) = minimise_container(rt, dir, container, comp, doc, tiles, f.what);
				if d != doc || t != tiles {
					detail["original_case"] = detail["case"].clone();
					detail["case"] = json!(c_line(container, comp, &d, &t));
					detail["minimised_document"] = json!(trunc(&d, 400));
				}
			}
			out.oracle(false, &format!("C17 container: {}: {}", container, f.what), json!({"kind": "container", "container": container, "what": f.what}), detail);
		}
	}
}

/// PMTiles size boundary (`C17b <delta> <seed> <hex doc>`): a tile set (from `crate::boundary`, regenerated from
/// delta and seed) whose compressed root directory is `16257 + delta` bytes long, i.e. sits at the byte budget
/// between the header and the metadata; the document must come back exactly as for every other pmtiles file.
fn emit_boundary(out: &mut Out, rt: &tokio::runtime::Runtime, dir: &Path, delta: i64, seed: u64, doc: &str) {
	let line = format!("C17b {delta} {seed} {}", hex(doc.as_bytes()));
	let Some((set, reached)) = crate::boundary::pmtiles_root_boundary_set(delta, seed) else {
		out.notes.push(format!("C17b: no boundary set found for delta {delta} seed {seed}"));
		return;
	};
	let Ok(g) = expected_object(doc) else { return };
	let tj = match catch(|| TileJSON::try_from(doc)) {
		Ok(Ok(t)) => t,
		_ => return,
	};
	let tiles: Vec<Tile> = set.keys().map(|(z, x, y)| (*z, *x, *y)).collect();
	let blobs: Vec<(TileCoord3, Blob)> = set.iter().map(|((z, x, y), b)| (TileCoord3::new(*x, *y, *z).unwrap(), Blob::from(b.clone()))).collect();
	let mut src = MemSource::new("c17b", TileFormat::PNG, TileCompression::Gzip, blobs).with_tilejson(tj);
	let path = container_path(dir, "b", "pmtiles");
	out.eval(&line, true);
	out.count("container_pmtiles_boundary");
	out.count(&format!("pmtiles_root_delta_{}", reached - crate::boundary::PM_ROOT_BUDGET));
	let verdict: Option<(&'static str, String)> = match write_container(rt, &mut src, "pmtiles", &path) {
		Err((what, msg)) => Some((what, msg)),
		Ok(()) => match read_container(rt, "pmtiles", &path) {
			Err((what, msg)) => Some((what, msg)),
			Ok(t) => match catch(|| real_object(&t)) {
				Err(m) => Some(("panic", format!("as_object: {m}"))),
				Ok(r) => {
					let mut narrower = false;
					container_rule(&g, &r, &tiles, false, &mut narrower)
				}
			},
		},
	};
	remove(&path);
	match verdict {
		None => out.oracle(true, "", json!(null), json!(null)),
		Some((what, msg)) => out.oracle(false, &format!("C17 container: pmtiles: {what} (root directory at the size boundary)"), json!({"kind": "container", "container": "pmtiles", "what": what, "boundary": true}), json!({"case": line, "message": trunc(&msg, 300), "root_directory_bytes": reached, "tiles": tiles.len(), "given": obj_text(&g)})),
	}
}

// ---------------------------------------------------------------------------------------------
// checklist families: metadata sizes, pre-existing state, independent writers, extreme coordinates
// ---------------------------------------------------------------------------------------------

/// a document whose serialised form (`TileJSON::as_string`) is exactly `target` bytes long; `noise`: the padding is
/// (seeded) random text, so that the compressed metadata is long as well
fn doc_of_len(target: usize, noise: Option<&mut Rng>) -> Option<String> {
	let base = r#"{"description":"","name":"size","tilejson":"3.0.0"}"#;
	if target < base.len() {
		return None;
	}
	let n = target - base.len();
	let pad: String = match noise {
		None => "a".repeat(n),
		Some(r) => (0..n).map(|_| *r.pick(b"abcdefghijklmnopqrstuvwxyzABCDEFGHIJKLMNOPQRSTUVWXYZ0123456789 .,;-_") as char).collect(),
	};
	let doc = format!(r#"{{"description":"{pad}","name":"size","tilejson":"3.0.0"}}"#);
	match catch(|| TileJSON::try_from(doc.as_str()).map(|t| t.as_string().len())) {
		Ok(Ok(l)) if l == target => Some(doc),
		_ => None,
	}
}

/// checklist 1/3: metadata lengths at the byte-count boundaries of the formats (varint 127/128, tar block 512, page 4096,
/// PMTiles root/metadata offset 16384, deflate window 32768, u16 65536, thorough: 1 MiB), in EVERY container
fn emit_sizes(out: &mut Out, rt: &tokio::runtime::Runtime, dir: &Path, rng: &mut Rng, thorough: bool) {
	let mut targets: Vec<usize> = vec![];
	let bases: &[usize] = if thorough { &[64, 128, 256, 512, 1000, 1024, 2048, 4096, 7680, 8192, 16257, 16384, 32768, 65536, 131072, 1 << 20] } else { &[128, 512, 4096, 7680, 8192, 16384, 32768, 65536] };
	for b in bases {
		targets.extend([b - 1, *b, b + 1]);
	}
	let tiles: Vec<Tile> = vec![(3, 1, 2), (3, 2, 2)];
	for t in targets {
		for noisy in [false, true] {
			let doc = match doc_of_len(t, if noisy { Some(rng) } else { None }) {
				Some(d) => d,
				None => continue,
			};
			for c in CONTAINERS {
				let comps: &[TileCompression] = if thorough { &[TileCompression::Uncompressed, TileCompression::Gzip, TileCompression::Brotli] } else if noisy { &[TileCompression::Gzip] } else { &[TileCompression::Uncompressed, TileCompression::Brotli] };
				for comp in comps {
					out.count("container_size_family");
					emit_container(out, rt, dir, c, *comp, &doc, &tiles, false);
				}
			}
		}
	}
}

fn r_line(container: &str, comp: TileCompression, a: &str, b: &str, tiles: &[Tile]) -> String {
	format!("C17r {container} {} {} {} {}", comp_name(comp), hex(a.as_bytes()), hex(b.as_bytes()), tiles_str(tiles))
}

/// checklist 5: the output already exists (an older, longer container with another document at the same path) and the
/// container is opened twice: the second document must come back, both times
fn emit_reuse(out: &mut Out, rt: &tokio::runtime::Runtime, dir: &Path, container: &str, comp: TileCompression, doc_a: &str, doc_b: &str, tiles: &[Tile]) {
	let line = r_line(container, comp, doc_a, doc_b, tiles);
	let (Ok(g), Ok(mut src_a), Ok(mut src_b)) = (expected_object(doc_b), build_source(doc_a, comp, tiles), build_source(doc_b, comp, &tiles[..1.max(tiles.len() / 2)])) else { return };
	let path = container_path(dir, "r", container);
	out.eval(&line, true);
	out.count(&format!("reuse_{container}"));
	let mut verdict: Option<(&'static str, String)> = None;
	if let Err(e) = write_container(rt, &mut src_a, container, &path) {
		verdict = Some(e);
	} else if let Err(e) = write_container_opt(rt, &mut src_b, container, &path, false) {
		// refusing to overwrite is "failing loudly": acceptable
		out.count(&format!("reuse_{container}_refused"));
		let _ = e;
	} else {
		for round in 0..2 {
			match read_container(rt, container, &path) {
				// a directory that now holds tiles of two formats/compressions is refused loudly: acceptable
				Err((_, m)) if container == "directory" && m.contains("found multiple tile") => {
					out.count("reuse_directory_mixed_refused");
					break;
				}
				Err(e) => verdict = Some(e),
				Ok(t) => match catch(|| real_object(&t)) {
					Err(m) => verdict = Some(("panic", m)),
					Ok(r) => {
						let mut narrower = false;
						let kept = &tiles[..1.max(tiles.len() / 2)];
						// a directory keeps the older tiles that the second write did not overwrite: coverage = all of them
						let cov_tiles: &[Tile] = if container == "directory" { tiles } else { kept };
						if let Some((w, m)) = container_rule(&g, &r, cov_tiles, container == "directory", &mut narrower) {
							verdict = Some((w, format!("open #{}: {m}; returned {}", round + 1, trunc(&obj_text(&r), 300))));
						}
					}
				},
			}
			if verdict.is_some() {
				break;
			}
		}
	}
	remove(&path);
	match verdict {
		None => out.oracle(true, "", json!(null), json!(null)),
		Some((what, msg)) => out.oracle(false, &format!("C17 container: {container}: {what} (written over an existing container)"), json!({"kind": "container", "container": container, "what": what, "reuse": true}), json!({"case": line, "message": msg, "given": obj_text(&g)})),
	}
}

fn i_line(container: &str, meta: &[u8], tiles: &[Tile]) -> String {
	format!("C17i {container} {} {}", hex(meta), tiles_str(tiles))
}

/// checklist 9: containers produced by the INDEPENDENT writers (harness/src/indep_formats.rs; tar and directory by
/// hand) whose metadata text uses the freedoms of JSON (whitespace, escapes, exponents, duplicate keys): the reader must
/// hand out the document that text denotes
fn emit_indep(out: &mut Out, rt: &tokio::runtime::Runtime, dir: &Path, container: &str, meta: &[u8], tiles: &[Tile]) {
	use crate::indep_formats as ind;
	let line = i_line(container, meta, tiles);
	let Ok(text) = std::str::from_utf8(meta) else { return };
	let g = match expected_object(text) {
		Ok(g) => g,
		Err(m) => {
			out.count("indep_doc_not_expressible");
			if out.notes.len() < 40 {
				out.notes.push(format!("C17i text outside the reference reader's model ({m}): {}", trunc(text, 120)));
			}
			return;
		}
	};
	let map: ind::TileMap = tiles.iter().map(|(z, x, y)| ((*z, *x, *y), vec![0x89, b'P', b'N', b'G', *z, *x as u8, *y as u8])).collect();
	let path = container_path(dir, "i", container);
	remove(&path);
	let mut r = Rng(7);
	let written: Result<(), String> = match container {
		"versatiles" => {
			let mut ch = ind::VtChoices::plain(ind::Fmt::Png, ind::Comp::None);
			ch.meta = Some(meta.to_vec());
			std::fs::write(&path, ind::encode_versatiles(&map, &ch, &mut r).bytes).map_err(|e| e.to_string())
		}
		"pmtiles" => {
			let mut ch = ind::PmChoices::plain(2, 1);
			ch.meta = meta.to_vec();
			std::fs::write(&path, ind::encode_pmtiles(&map, &ch, &mut r).bytes).map_err(|e| e.to_string())
		}
		"tar" => (|| -> Result<(), String> {
			let f = std::fs::File::create(&path).map_err(|e| e.to_string())?;
			let mut b = tar::Builder::new(f);
			let mut add = |name: String, data: &[u8]| -> Result<(), String> {
				let mut h = tar::Header::new_gnu();
				h.set_size(data.len() as u64);
				h.set_mode(0o644);
				h.set_cksum();
				b.append_data(&mut h, name, data).map_err(|e| e.to_string())
			};
			for ((z, x, y), p) in &map {
				add(format!("./{z}/{x}/{y}.png"), p)?;
			}
			add("tiles.json".to_string(), meta)?;
			b.finish().map_err(|e| e.to_string())
		})(),
		_ => (|| -> Result<(), String> {
			for ((z, x, y), p) in &map {
				let d = path.join(z.to_string()).join(x.to_string());
				std::fs::create_dir_all(&d).map_err(|e| e.to_string())?;
				std::fs::write(d.join(format!("{y}.png")), p).map_err(|e| e.to_string())?;
			}
			std::fs::write(path.join("meta.json"), meta).map_err(|e| e.to_string())
		})(),
	};
	if let Err(e) = written {
		out.notes.push(format!("C17i: independent writer failed: {e}"));
		remove(&path);
		return;
	}
	out.eval(&line, true);
	out.count(&format!("indep_{container}"));
	let verdict: Option<(&'static str, String)> = match read_container(rt, container, &path) {
		Err(e) => Some(e),
		Ok(t) => match catch(|| real_object(&t)) {
			Err(m) => Some(("panic", m)),
			Ok(r) => {
				let mut narrower = false;
				container_rule(&g, &r, tiles, container == "directory", &mut narrower).map(|(w, m)| (w, format!("{m}; returned {}", trunc(&obj_text(&r), 300))))
			}
		},
	};
	remove(&path);
	match verdict {
		None => out.oracle(true, "", json!(null), json!(null)),
		Some((what, msg)) => out.oracle(false, &format!("C17 container: {container}: {what} (container from the independent writer)"), json!({"kind": "container", "container": container, "what": what, "indep": true}), json!({"case": line, "message": msg, "given": obj_text(&g), "metadata_text": trunc(text, 300)})),
	}
}

/// the same document in another textual form: layout/escape/exponent variant of the real serialisation, optionally
/// with a duplicate of the first key in front (the later one wins in every JSON reader)
fn noncanonical_text(rng: &mut Rng, doc: &str) -> Option<String> {
	let v = JsonValue::parse_str(doc).ok()?;
	let mut s = String::new();
	super::variant_text_strict(rng, &v, &mut s);
	if rng.chance(1, 3) {
		if let JsonValue::Object(o) = &v {
			if let Some((k, _)) = o.0.iter().next() {
				let mut ks = String::new();
				super::variant_text_strict(rng, &JsonValue::String(k.clone()), &mut ks);
				s = format!("{{{ks}: \"shadowed\" ,{}", &s[1..]);
			}
		}
	}
	Some(s)
}

// ---------------------------------------------------------------------------------------------
// served tiles.json
// ---------------------------------------------------------------------------------------------

struct Server {
	child: std::process::Child,
	port: u16,
}

impl Drop for Server {
	fn drop(&mut self) {
		let _ = self.child.kill();
		let _ = self.child.wait();
	}
}

fn free_port() -> Result<u16, String> {
	let l = std::net::TcpListener::bind("127.0.0.1:0").map_err(|e| e.to_string())?;
	let p = l.local_addr().map_err(|e| e.to_string())?.port();
	drop(l);
	Ok(p)
}

fn start_server(bin: &Path, sources: &[(String, PathBuf)], log: &Path) -> Result<Server, String> {
	let mut last = String::new();
	for _attempt in 0..3 {
		let port = free_port()?;
		let logf = std::fs::File::create(log).map_err(|e| e.to_string())?;
		let mut cmd = std::process::Command::new(bin);
		cmd.arg("serve").arg("-i").arg("127.0.0.1").arg("-p").arg(port.to_string());
		for (id, p) in sources {
			cmd.arg(format!("[{id}]{}", p.display()));
		}
		cmd.stdin(std::process::Stdio::null()).stdout(std::process::Stdio::null()).stderr(logf);
		let child = cmd.spawn().map_err(|e| format!("spawn {bin:?}: {e}"))?;
		let mut srv = Server { child, port };
		let t0 = Instant::now();
		loop {
			if let Ok(Some(st)) = srv.child.try_wait() {
				last = format!("server exited ({st}): {}", trunc(&std::fs::read_to_string(log).unwrap_or_default(), 400));
				break;
			}
			if std::net::TcpStream::connect_timeout(&([127, 0, 0, 1], port).into(), Duration::from_millis(200)).is_ok() {
				// still our process?
				std::thread::sleep(Duration::from_millis(20));
				if let Ok(None) = srv.child.try_wait() {
					return Ok(srv);
				}
			}
			if t0.elapsed() > Duration::from_secs(10) {
				last = "server did not accept connections within 10 s".into();
				break;
			}
			std::thread::sleep(Duration::from_millis(25));
		}
		drop(srv);
	}
	Err(last)
}

struct Resp {
	status: u16,
	body: Vec<u8>,
}

fn find(h: &[u8], n: &[u8]) -> Option<usize> {
	h.windows(n.len()).position(|w| w == n)
}

fn dechunk(mut b: &[u8]) -> Result<Vec<u8>, String> {
	let mut out = vec![];
	loop {
		let e = find(b, b"\r\n").ok_or("chunk size line missing")?;
		let line = std::str::from_utf8(&b[..e]).map_err(|_| "chunk size not text")?;
		let n = usize::from_str_radix(line.split(';').next().unwrap().trim(), 16).map_err(|_| format!("bad chunk size {line:?}"))?;
		b = &b[e + 2..];
		if n == 0 {
			return Ok(out);
		}
		if b.len() < n + 2 {
			return Err("chunk truncated".into());
		}
		out.extend_from_slice(&b[..n]);
		b = &b[n + 2..];
	}
}

fn http_get(port: u16, path: &str) -> Result<Resp, String> {
	http_req(port, path, Some("identity")).map(|(r, _)| r)
}

/// raw HTTP/1.1 GET; the body is returned decoded (gzip / br) together with the content-encoding the server chose
fn http_req(port: u16, path: &str, accept: Option<&str>) -> Result<(Resp, String), String> {
	let mut s = std::net::TcpStream::connect_timeout(&([127, 0, 0, 1], port).into(), Duration::from_secs(5)).map_err(|e| format!("connect: {e}"))?;
	s.set_read_timeout(Some(Duration::from_secs(10))).ok();
	s.set_write_timeout(Some(Duration::from_secs(10))).ok();
	let ae = accept.map_or(String::new(), |a| format!("Accept-Encoding: {a}\r\n"));
	let req = format!("GET {path} HTTP/1.1\r\nHost: localhost\r\n{ae}Connection: close\r\n\r\n");
	s.write_all(req.as_bytes()).map_err(|e| format!("send: {e}"))?;
	let mut buf = vec![];
	s.read_to_end(&mut buf).map_err(|e| format!("receive: {e}"))?;
	let e = find(&buf, b"\r\n\r\n").ok_or("no header end")?;
	let head = String::from_utf8_lossy(&buf[..e]).to_string();
	let rest = &buf[e + 4..];
	let mut lines = head.split("\r\n");
	let status: u16 = lines.next().and_then(|l| l.split(' ').nth(1)).and_then(|c| c.parse().ok()).ok_or("bad status line")?;
	let mut chunked = false;
	let mut clen: Option<usize> = None;
	let mut cenc = String::new();
	for l in lines {
		if let Some((k, v)) = l.split_once(':') {
			let (k, v) = (k.trim().to_ascii_lowercase(), v.trim().to_ascii_lowercase());
			match k.as_str() {
				"transfer-encoding" => chunked = v.contains("chunked"),
				"content-length" => clen = v.parse().ok(),
				"content-encoding" => cenc = v,
				_ => {}
			}
		}
	}
	let body = if chunked {
		dechunk(rest)?
	} else if let Some(n) = clen {
		if rest.len() < n {
			return Err(format!("body shorter ({}) than content-length {n}", rest.len()));
		}
		rest[..n].to_vec()
	} else {
		rest.to_vec()
	};
	let accepted = accept.unwrap_or("").to_ascii_lowercase();
	let body = match cenc.as_str() {
		"" | "identity" => body,
		"gzip" if accepted.contains("gzip") => crate::indep_formats::gunzip(&body).map_err(|e| format!("gzip body: {e}"))?,
		"br" if accepted.contains("br") => crate::indep_formats::brotli_d(&body).map_err(|e| format!("br body: {e}"))?,
		_ => return Err(format!("content-encoding {cenc} although the request said {accept:?}")),
	};
	Ok((Resp { status, body }, cenc))
}

/// structural equality, numbers as f64
fn json_eq(a: &Value, b: &Value) -> bool {
	match (a, b) {
		(Value::Number(x), Value::Number(y)) => x.as_f64() == y.as_f64(),
		(Value::Array(x), Value::Array(y)) => x.len() == y.len() && x.iter().zip(y).all(|(p, q)| json_eq(p, q)),
		(Value::Object(x), Value::Object(y)) => x.len() == y.len() && x.iter().all(|(k, p)| y.get(k).map_or(false, |q| json_eq(p, q))),
		_ => a == b,
	}
}

fn sorted_layers(v: &Value) -> Value {
	match v {
		Value::Array(a) => {
			let mut a = a.clone();
			a.sort_by_key(|l| l.get("id").and_then(|i| i.as_str()).unwrap_or("").to_string());
			Value::Array(a)
		}
		o => o.clone(),
	}
}

fn f4(v: &Value) -> Option<[f64; 4]> {
	let a = v.as_array()?;
	if a.len() != 4 {
		return None;
	}
	let mut r = [0.0; 4];
	for i in 0..4 {
		r[i] = a[i].as_f64()?;
		if !r[i].is_finite() {
			return None;
		}
	}
	Some(r)
}

/// The rule of the property for the served tiles.json.  `cov` = geographic box of the coverage.
fn tilesjson_rule(id: &str, g: &Map<String, Value>, tiles: &[Tile], cov: &[f64; 4], resp: &Resp) -> Option<(&'static str, String)> {
	if resp.status != 200 {
		return Some(("status", format!("status {}", resp.status)));
	}
	let body: Value = match serde_json::from_slice(&resp.body) {
		Ok(v) => v,
		Err(e) => return Some(("invalid-json", format!("serde_json: {e}"))),
	};
	let b = match body.as_object() {
		Some(o) => o,
		None => return Some(("invalid-json", "body is not an object".into())),
	};
	const SKIP: [&str; 7] = ["bounds", "minzoom", "maxzoom", "type", "name", "format", "tiles"];
	for (k, v) in g {
		if SKIP.contains(&k.as_str()) {
			continue;
		}
		match b.get(k) {
			None => return Some(("missing-key", format!("key {k:?} is missing"))),
			Some(w) => {
				let same = if k == "vector_layers" { json_eq(&sorted_layers(v), &sorted_layers(w)) } else { json_eq(v, w) };
				if !same {
					return Some(("changed-value", format!("value of key {k:?} changed")));
				}
			}
		}
	}
	// tiles URL template
	match b.get("tiles").and_then(|t| t.as_array()) {
		Some(a) if a.len() == 1 => match a[0].as_str() {
			Some(u) if u.ends_with("{z}/{x}/{y}") && u.contains(&format!("/tiles/{id}/")) => {}
			_ => return Some(("tiles-template", format!("tiles[0] = {}", a[0]))),
		},
		_ => return Some(("tiles-template", "tiles is not an array with exactly one entry".into())),
	}
	if b.get("name").and_then(|n| n.as_str()) != Some(id) {
		return Some(("changed-value", format!("name is {:?}, expected the source id {id:?}", b.get("name"))));
	}
	// zoom range = given ∩ stored
	let (lo, hi) = zoom_range(tiles);
	let want_min = byte_of(g.get("minzoom")).map_or(lo, |m| m.max(lo));
	let want_max = byte_of(g.get("maxzoom")).map_or(hi, |m| m.min(hi));
	for (key, want) in [("minzoom", want_min), ("maxzoom", want_max)] {
		match b.get(key).and_then(|v| v.as_f64()) {
			Some(x) if x == want as f64 => {}
			other => return Some(("zoom", format!("{key} is {other:?}, expected {want} (given ∩ stored {lo}..{hi})"))),
		}
	}
	// bounds inside given and inside coverage
	let rb = match b.get("bounds").and_then(f4) {
		Some(x) => x,
		None => return Some(("bounds", "bounds missing or not four finite numbers".into())),
	};
	if let Some(gb) = g.get("bounds").and_then(num4) {
		if !inside(&rb, &gb, TOL) {
			return Some(("bounds", format!("bounds {rb:?} not inside the given {gb:?}")));
		}
	}
	if !inside(&rb, cov, TOL) {
		return Some(("bounds", format!("bounds {rb:?} not inside the coverage {cov:?}")));
	}
	None
}

struct HItem {
	id: String,
	container: String,
	doc: String,
	tiles: Vec<Tile>,
	line: String,
	g: Map<String, Value>,
	cov: [f64; 4],
	path: PathBuf,
}

fn h_line(container: &str, doc: &str, tiles: &[Tile]) -> String {
	format!("C17h {container} {} {}", hex(doc.as_bytes()), tiles_str(tiles))
}

/// write the container for one HTTP case; `Ok(None)` = document outside the quantifier
fn prepare_http(out: &mut Out, rt: &tokio::runtime::Runtime, dir: &Path, id: &str, container: &str, doc: &str, tiles: &[Tile]) -> Option<HItem> {
	let line = h_line(container, doc, tiles);
	let g = match expected_object(doc) {
		Ok(g) => g,
		Err(m) => {
			out.count("doc_not_expressible");
			out.notes.push(format!("C17h document outside the TileJSON model ({}): {}", trunc(&m, 120), trunc(&line, 200)));
			return None;
		}
	};
	out.eval(&line, nontrivial(&g));
	out.count(&format!("http_{container}"));
	let mut src = match build_source(doc, http_comp(doc), tiles) {
		Ok(s) => s,
		Err(m) => {
			out.oracle(false, &format!("C17 container: {container}: document-rejected"), json!({"kind": "container", "container": container, "what": "document-rejected"}), json!({"case": line, "message": m}));
			return None;
		}
	};
	// "consistent with the coverage": the reference box is the real pyramid's geographic box
	let cov = match catch(|| src.parameters.bbox_pyramid.get_geo_bbox()) {
		Ok(Some(b)) => [b.0, b.1, b.2, b.3],
		_ => coverage_geo(tiles),
	};
	let path = container_path(dir, id, container);
	if let Err((what, msg)) = write_container(rt, &mut src, container, &path) {
		remove(&path);
		out.oracle(false, &format!("C17 container: {container}: {what}"), json!({"kind": "container", "container": container, "what": what}), json!({"case": line, "message": msg}));
		return None;
	}
	Some(HItem { id: id.to_string(), container: container.to_string(), doc: doc.to_string(), tiles: tiles.to_vec(), line, g, cov, path })
}

fn judge_http(out: &mut Out, it: &HItem, resp: Result<Resp, String>) {
	let (verdict, body) = match &resp {
		Ok(r) => (tilesjson_rule(&it.id, &it.g, &it.tiles, &it.cov, r), String::from_utf8_lossy(&r.body).to_string()),
		Err(m) => (Some(("status", format!("no response: {m}"))), String::new()),
	};
	match verdict {
		None => out.oracle(true, "", json!(null), json!(null)),
		Some((what, msg)) => {
			out.count(&format!("fail_http_{what}"));
			out.oracle(
				false,
				&format!("C17 tiles.json: {what}"),
				json!({"kind": "tilesjson", "what": what}),
				json!({"case": it.line, "message": msg, "id": it.id, "given": obj_text(&it.g), "body": body.chars().take(400).collect::<String>()}),
			);
		}
	}
}

/// request variants (checklist 7/10): the same document must come back on the `meta.json` alias, with a query string,
/// and under every Accept-Encoding the server negotiates (decoded body identical as JSON)
fn request_variants(out: &mut Out, port: u16, it: &HItem, main: &[u8]) {
	let Ok(want) = serde_json::from_slice::<Value>(main) else { return };
	let base = format!("/tiles/{}/tiles.json", it.id);
	let variants: Vec<(String, Option<&str>)> = vec![
		(format!("/tiles/{}/meta.json", it.id), Some("identity")),
		(format!("{base}?v=1"), Some("identity")),
		(base.clone(), None),
		(base.clone(), Some("gzip")),
		(base.clone(), Some("br")),
		(base.clone(), Some("gzip, deflate, br")),
		(base.clone(), Some("br;q=0.1, gzip;q=0.9")),
		(base.clone(), Some("GZIP")),
		(base.clone(), Some("*")),
		(base.clone(), Some("")),
	];
	for (path, ae) in variants {
		out.eval(&format!("{} variant {path} {ae:?}", it.line), true);
		out.count("http_variant");
		let verdict = match http_req(port, &path, ae) {
			Err(m) => Some(format!("no usable response: {m}")),
			Ok((r, _)) if r.status != 200 => Some(format!("status {}", r.status)),
			Ok((r, cenc)) => match serde_json::from_slice::<Value>(&r.body) {
				Ok(v) if json_eq(&v, &want) => {
					out.count(&format!("http_variant_encoding_{}", if cenc.is_empty() { "identity" } else { &cenc }));
					None
				}
				Ok(_) => Some("different document".into()),
				Err(e) => Some(format!("invalid JSON: {e}")),
			},
		};
		match verdict {
			None => out.oracle(true, "", json!(null), json!(null)),
			Some(m) => out.oracle(false, "C17 tiles.json: request variant answers differently", json!({"kind": "tilesjson", "what": "variant", "path_kind": if path.contains("meta.json") { "alias" } else if path.contains('?') { "query" } else { "accept-encoding" }}), json!({"case": it.line, "path": path, "accept_encoding": ae, "message": m})),
		}
	}
}

/// checklist 10: `versatiles probe` prints the metadata of the same file; it must be the document the reader hands out
fn probe_agrees(out: &mut Out, bin: &Path, it: &HItem) {
	let rt = runtime();
	let Ok(t) = read_container(&rt, &it.container, &it.path) else { return };
	let want = t.as_string();
	let o = std::process::Command::new(bin).arg("probe").arg(&it.path).env("NO_COLOR", "1").output();
	out.eval(&format!("{} probe", it.line), true);
	out.count("probe_runs");
	let verdict = match o {
		Err(e) => Some(format!("cannot run probe: {e}")),
		Ok(o) => {
			let text = format!("{}{}", String::from_utf8_lossy(&o.stdout), String::from_utf8_lossy(&o.stderr));
			if !o.status.success() {
				Some(format!("probe failed: {}", trunc(&text, 300)))
			} else if !text.contains(&format!("meta: {want:?}")) {
				// (the pretty printer shows the value with Rust's `{:?}` string escaping)
				Some(format!("probe output does not contain the reader's document; output: {}", trunc(&text, 400)))
			} else {
				None
			}
		}
	};
	match verdict {
		None => out.oracle(true, "", json!(null), json!(null)),
		Some(m) => out.oracle(false, "C17 probe: metadata printed by `versatiles probe` differs from reader.get_tilejson()", json!({"kind": "probe"}), json!({"case": it.line, "message": m, "expected": trunc(&want, 300)})),
	}
}

/// serve the prepared containers from one process and judge each answer; falls back to one server
/// per container when the common server does not come up
fn serve_and_judge(out: &mut Out, bin: &Path, dir: &Path, items: &[HItem]) {
	if items.is_empty() {
		return;
	}
	let log = dir.join("server.log");
	let sources: Vec<(String, PathBuf)> = items.iter().map(|i| (i.id.clone(), i.path.clone())).collect();
	match start_server(bin, &sources, &log) {
		Ok(srv) => {
			out.count("server_starts");
			for it in items {
				let resp = http_get(srv.port, &format!("/tiles/{}/tiles.json", it.id));
				let main_body = resp.as_ref().ok().filter(|r| r.status == 200).map(|r| r.body.clone());
				judge_http(out, it, resp);
				if let Some(main) = main_body {
					request_variants(out, srv.port, it, &main);
				}
			}
			drop(srv);
			for it in items {
				probe_agrees(out, bin, it);
			}
		}
		Err(m) if items.len() == 1 => judge_http(out, &items[0], Err(m)),
		Err(_) => {
			for it in items {
				serve_and_judge(out, bin, dir, std::slice::from_ref(it));
			}
		}
	}
	let _ = std::fs::remove_file(&log);
}

fn server_binary(out: &mut Out) -> Option<PathBuf> {
	match std::env::var("VTH_BIN") {
		Ok(p) if Path::new(&p).is_file() => Some(PathBuf::from(p)),
		Ok(p) => {
			out.notes.push(format!("C17 tiles.json part skipped: VTH_BIN={p} is not a file"));
			None
		}
		Err(_) => {
			out.notes.push("C17 tiles.json part skipped: VTH_BIN is not set".into());
			None
		}
	}
}

// ---------------------------------------------------------------------------------------------
// entry points
// ---------------------------------------------------------------------------------------------

/// a generated document (always inside the data model of the property)
fn gen_accepted_doc(out: &mut Out, rng: &mut Rng) -> String {
	loop {
		let d = gen_doc(rng);
		match expected_object(&d) {
			Ok(g) => {
				for k in SPECIAL {
					if g.contains_key(k) {
						out.count(&format!("doc_with_{k}"));
					}
				}
				if g.iter().any(|(k, v)| !SPECIAL.contains(&k.as_str()) && v.is_array()) {
					out.count("doc_with_list");
				}
				if g.iter().any(|(k, v)| !SPECIAL.contains(&k.as_str()) && v.is_number()) {
					out.count("doc_with_byte");
				}
				out.count("doc_generated");
				return d;
			}
			Err(m) => {
				// cannot happen for gen_doc; kept so that a generator slip is visible rather than silent
				out.count("doc_not_expressible");
				out.notes.push(format!("generated document outside the TileJSON model ({m}): {}", trunc(&d, 300)));
			}
		}
	}
}

pub fn run(args: &Args, out: &mut Out, rng: &mut Rng) {
	let t0 = Instant::now();
	let rt = runtime();
	let dir = scratch(out);
	let comps = [TileCompression::Uncompressed, TileCompression::Gzip, TileCompression::Brotli];

	// containers
	let n = args.n(40, 400);
	for i in 0..n {
		// the same document goes through all four containers every fourth round
		let shared = if i % 4 == 0 { Some((gen_accepted_doc(out, rng), gen_tiles(rng))) } else { None };
		for c in CONTAINERS {
			let (doc, tiles) = match &shared {
				Some(s) => s.clone(),
				None => (gen_accepted_doc(out, rng), gen_tiles(rng)),
			};
			let comp = *rng.pick(&comps);
			emit_container(out, &rt, &dir, c, comp, &doc, &tiles, true);
		}
	}
	// PMTiles root directory at its byte budget (16257): one set right at it, two inside the 127 bytes above it
	let deltas: &[i64] = if args.thorough() { &[-1, 0, 1, 2, 64, 126, 127, 128] } else { &[0, 1, 127] };
	for (k, d) in deltas.iter().enumerate() {
		let doc = gen_accepted_doc(out, rng);
		emit_boundary(out, &rt, &dir, *d, 7 + k as u64, &doc);
	}
	// checklist families
	emit_sizes(out, &rt, &dir, rng, args.thorough());
	for i in 0..args.n(12, 120) {
		let c = CONTAINERS[i % 4];
		let (a, b) = (gen_accepted_doc(out, rng), gen_accepted_doc(out, rng));
		// the older document is made much longer than the new one
		let a_long = match doc_of_len(3000 + 977 * (i % 5), Some(rng)) {
			Some(d) if i % 2 == 0 => d,
			_ => a,
		};
		let tiles = gen_tiles(rng);
		emit_reuse(out, &rt, &dir, c, *rng.pick(&comps), &a_long, &b, &tiles);
	}
	// the same path written twice with documents of EQUAL serialised length (one character of a string value or one
	// digit of a number changed) and of length ±1: the second document must come back (a writer that "resumes" by
	// skipping files of the expected size keeps the first one)
	for (k, c) in CONTAINERS.iter().enumerate() {
		let word = super::gen_string(rng).chars().filter(|c| c.is_ascii_alphanumeric()).collect::<String>() + "pad";
		let a = format!(r#"{{"description":"{word}x","maxzoom":12,"name":"first","attribution":"é{k}"}}"#);
		let variants = [
			format!(r#"{{"description":"{word}y","maxzoom":12,"name":"first","attribution":"é{k}"}}"#), // one character
			format!(r#"{{"description":"{word}x","maxzoom":13,"name":"first","attribution":"é{k}"}}"#), // one digit
			format!(r#"{{"description":"{word}x","maxzoom":12,"name":"tsrif","attribution":"é{k}"}}"#), // permuted value
			format!(r#"{{"description":"{word}xx","maxzoom":12,"name":"first","attribution":"é{k}"}}"#), // +1
			format!(r#"{{"description":"{word}","maxzoom":12,"name":"first","attribution":"é{k}"}}"#),  // −1
			format!(r#"{{"description":"{word}x","maxzoom":1,"name":"first1","attribution":"é{k}"}}"#), // same length, two fields
		];
		let tiles = vec![(2u8, 1u32, 1u32), (3, 2, 5)];
		for b in &variants {
			for comp in [TileCompression::Uncompressed, TileCompression::Gzip] {
				out.count("reuse_same_length");
				emit_reuse(out, &rt, &dir, c, comp, &a, b, &tiles);
			}
		}
	}
	for i in 0..args.n(40, 400) {
		let c = CONTAINERS[i % 4];
		let doc = gen_accepted_doc(out, rng);
		if let Some(text) = noncanonical_text(rng, &doc) {
			let tiles = gen_tiles(rng);
			emit_indep(out, &rt, &dir, c, text.as_bytes(), &tiles);
		}
	}
	// option interplay (checklist 4): documents whose bounds / zoom keys collide with what the container derives
	let interplay = [
		r#"{"minzoom":"x","maxzoom":["a"],"bounds":[-180,-90,180,90]}"#,
		r#"{"minzoom":0,"maxzoom":255,"bounds":[0,0,0,0],"center":[0,0,0]}"#,
		r#"{"minzoom":255,"maxzoom":0,"bounds":[10,10,-10,-10]}"#,
		r#"{"tiles":["http://other/{z}/{x}/{y}"],"name":"given","type":"given","format":"given","vector_layers":[{"id":"a","fields":{}}]}"#,
		r#"{"bounds":[-1e-300,-5e-324,1e-300,5e-324],"fillzoom":7}"#,
	];
	// bounds that fail `GeoBBox::check` (antimeridian-crossing, just outside the world, reversed): the document must
	// still come back, not the default one (checklist 11: the fallback must not be taken for a readable document)
	let odd_bounds = [
		r#"{"bounds":[170,-10,-170,10],"name":"antimeridian"}"#,
		r#"{"bounds":[-180.0000001,-90.0000001,180.0000001,90.0000001],"name":"outside"}"#,
		r#"{"bounds":[10,20,-10,-20],"name":"reversed","center":[181,91,31]}"#,
	];
	for (k, doc) in odd_bounds.iter().enumerate() {
		let tiles = gen_tiles(rng);
		for c in CONTAINERS {
			out.count("container_odd_bounds");
			emit_container(out, &rt, &dir, c, comps[k % 3], doc, &tiles, false);
		}
	}
	// checklist 12/13: trap strings and number borders in documents, through every container
	let mut special: Vec<String> = vec![];
	for (i, t) in crate::c19_gen::UNICODE_TRAPS.iter().enumerate() {
		special.extend(super::tj::trap_docs(t).into_iter().skip(i % 3).take(if args.thorough() { 3 } else { 1 }));
	}
	for (i, n) in crate::c19_gen::NUM_BORDERS.iter().enumerate() {
		for d in super::tj::border_docs(n).into_iter().skip(if args.thorough() { 0 } else { i % 7 }).take(if args.thorough() { 7 } else { 2 }) {
			// only documents the real reader accepts are inside the quantifier; they are stored in canonical form
			if let Ok(Ok(t)) = catch(|| TileJSON::try_from(d.as_str())) {
				special.push(t.as_string());
			}
		}
	}
	for (k, doc) in special.iter().enumerate() {
		let tiles = gen_tiles(rng);
		let cs: Vec<&str> = if args.thorough() { CONTAINERS.to_vec() } else { vec![CONTAINERS[k % 4], CONTAINERS[(k + 1) % 4]] };
		for c in cs {
			out.count("container_traps_borders");
			emit_container(out, &rt, &dir, c, comps[k % 3], doc, &tiles, false);
		}
	}
	for (k, doc) in interplay.iter().enumerate() {
		let tiles = gen_tiles(rng);
		for c in CONTAINERS {
			out.count("container_interplay");
			emit_container(out, &rt, &dir, c, comps[k % 3], doc, &tiles, false);
		}
	}
	// extreme coordinates (checklist 8): level 0, the four corners of a level, high zoom levels
	for (k, tiles) in [vec![(0u8, 0u32, 0u32)], vec![(1, 0, 0), (1, 1, 1)], vec![(8, 0, 0), (8, 255, 255)], vec![(8, 255, 0), (8, 0, 255)], vec![(0, 0, 0), (20, 0, 0), (21, (1 << 21) - 1, (1 << 21) - 1)], vec![(24, 0, (1 << 24) - 1), (25, (1 << 25) - 1, 0)], vec![(12, 2048, 2047), (12, 2047, 2048)]].iter().enumerate() {
		let doc = gen_accepted_doc(out, rng);
		for c in CONTAINERS {
			out.count("container_extreme_coordinates");
			emit_container(out, &rt, &dir, c, comps[k % 3], &doc, tiles, false);
		}
	}
	out.extra.insert("c17io_container_seconds".into(), json!(t0.elapsed().as_secs_f64()));

	// served tiles.json
	let t1 = Instant::now();
	if let Some(bin) = server_binary(out) {
		let total = args.n(20, 200);
		let mut done = 0;
		while done < total {
			let batch = (total - done).min(10);
			let mut items = vec![];
			for j in 0..batch {
				let container = if (done + j) % 2 == 0 { "versatiles" } else { "pmtiles" };
				let doc = if done == 0 && j < interplay.len() {
					interplay[j].to_string()
				} else if done == 0 && j - interplay.len() < odd_bounds.len() {
					odd_bounds[j - interplay.len()].to_string()
				} else if done == 10 && !special.is_empty() {
					special[(j * 7 + 3) % special.len()].clone()
				} else {
					gen_accepted_doc(out, rng)
				};
				let tiles = if done == 0 && j == 5 { vec![(0, 0, 0)] } else if done == 0 && j == 6 { vec![(9, 0, 0), (10, 1023, 1023)] } else { gen_tiles(rng) };
				if let Some(it) = prepare_http(out, &rt, &dir, &format!("s{j}"), container, &doc, &tiles) {
					items.push(it);
				}
			}
			serve_and_judge(out, &bin, &dir, &items);
			for it in &items {
				remove(&it.path);
			}
			done += batch;
		}
	}
	out.extra.insert("c17io_http_seconds".into(), json!(t1.elapsed().as_secs_f64()));
	let _ = std::fs::remove_dir_all(&dir);
}

pub fn replay_line(out: &mut Out, line: &str) {
	let t: Vec<&str> = line.split(' ').collect();
	let rt = runtime();
	let dir = scratch(out);
	let text = |h: &str| String::from_utf8(unhex(h)).ok();
	match t.as_slice() {
		["C17c", container, comp, h, tiles] if CONTAINERS.contains(container) => match (parse_comp(comp), text(h), parse_tiles(tiles)) {
			(Some(comp), Some(doc), Some(tiles)) => emit_container(out, &rt, &dir, container, comp, &doc, &tiles, false),
			_ => out.notes.push(format!("unreadable replay line {line}")),
		},
		["C17r", container, comp, ha, hb, tiles] if CONTAINERS.contains(container) => match (parse_comp(comp), text(ha), text(hb), parse_tiles(tiles)) {
			(Some(comp), Some(a), Some(b), Some(tiles)) => emit_reuse(out, &rt, &dir, container, comp, &a, &b, &tiles),
			_ => out.notes.push(format!("unreadable replay line {line}")),
		},
		["C17i", container, h, tiles] if CONTAINERS.contains(container) => match parse_tiles(tiles) {
			Some(tiles) => emit_indep(out, &rt, &dir, container, &unhex(h), &tiles),
			_ => out.notes.push(format!("unreadable replay line {line}")),
		},
		["C17b", delta, seed, h] => match (delta.parse::<i64>(), seed.parse::<u64>(), text(h)) {
			(Ok(d), Ok(sd), Some(doc)) => emit_boundary(out, &rt, &dir, d, sd, &doc),
			_ => out.notes.push(format!("unreadable replay line {line}")),
		},
		["C17h", container, h, tiles] if CONTAINERS.contains(container) => match (text(h), parse_tiles(tiles)) {
			(Some(doc), Some(tiles)) => {
				if let Some(bin) = server_binary(out) {
					if let Some(it) = prepare_http(out, &rt, &dir, "s0", container, &doc, &tiles) {
						serve_and_judge(out, &bin, &dir, std::slice::from_ref(&it));
						remove(&it.path);
					}
				}
			}
			_ => out.notes.push(format!("unreadable replay line {line}")),
		},
		_ => out.notes.push(format!("unknown replay line {line}")),
	}
	let _ = std::fs::remove_dir_all(&dir);
}
