//! C05 – the HTTP tile endpoint serves exactly the stored tile under content negotiation.
//!
//! Starts the freshly built `versatiles serve` (env VTH_BIN) on free ports in three modes (best, `--fast`,
//! `--flip-y`) over versatiles / mbtiles / pmtiles containers written under `args.out`, sends raw HTTP/1.1
//! requests and compares
//!   * with the Lean model (`VtModel/Http.lean`): `C05 req …` → status / content-type / content-encoding,
//!   * with the stored tile (direct oracle): status 200 ⇔ the container holds the tile, body decoded per
//!     Content-Encoding = stored payload, Content-Type = media type of the format, Content-Encoding absent or
//!     listed by the client; 404 / 400 otherwise as a COMPLETE response (a dropped connection is a failure).
//! `C05 opt …` drives the real `optimize_compression` through its whole decision table.
use crate::c04::{br_dec, cname, gz_dec, indep_dec, indep_enc, parse_comp, runtime, MemReader, COMPS};
use crate::common::*;
use enumset::EnumSet;
use serde_json::json;
use std::collections::BTreeMap;
use std::io::{Read, Write};
use std::net::{TcpListener, TcpStream};
use std::path::PathBuf;
use std::process::{Child, Command, Stdio};
use std::time::{Duration, Instant};
use versatiles_container::{write_to_filename, MBTilesReader, TilesConvertReader, TilesConverterParameters, MOCK_BYTES_PBF, MOCK_BYTES_PNG};
use versatiles_core::{
	tilejson::TileJSON,
	types::{Blob, TileCompression, TileCoord3, TileFormat, TilesReaderTrait},
	utils::{compress, optimize_compression, TargetCompression},
};

/// coordinates every container holds (contiguous zoom levels: MBTilesReader cannot open files with an empty level
/// between min and max zoom, DESIGN §8 F10 – not this property's subject)
const TILES: [(u8, u32, u32); 8] = [(0, 0, 0), (1, 0, 0), (1, 1, 1), (2, 1, 2), (2, 3, 3), (3, 7, 0), (3, 0, 7), (3, 4, 5)];

/// Large incompressible tiles (sources with `big`): payload sizes just below / above 64 KiB and 1 MiB, ~1.2 MiB and
/// 2 MiB – size-dependent shortcuts in the response path tend to sit at such round sizes (seeded regression C05-4:
/// blobs whose stored size exceeds 1 MiB skipped `optimize_compression`, and with it the Accept-Encoding header).
const BIG_TILES: [(u8, u32, u32); 6] = [(4, 0, 0), (4, 1, 0), (4, 2, 0), (4, 3, 0), (4, 4, 0), (4, 5, 0)];
const BIG_SIZES: [usize; 6] = [65536 - 600, 65536 + 600, 1048576 - 4000, 1048576 + 4000, 1258291, 2097152];

fn big_payload(c: (u8, u32, u32)) -> &'static Vec<u8> {
	static CACHE: std::sync::OnceLock<Vec<Vec<u8>>> = std::sync::OnceLock::new();
	let all = CACHE.get_or_init(|| {
		BIG_SIZES
			.iter()
			.enumerate()
			.map(|(i, n)| {
				// cheap incompressible bytes (xorshift), deterministic per tile
				let mut st: u64 = 0x9E3779B97F4A7C15 ^ (i as u64 + 1).wrapping_mul(0xD1B54A32D192ED03);
				let mut v = Vec::with_capacity(*n + 8);
				while v.len() < *n {
					st ^= st << 13;
					st ^= st >> 7;
					st ^= st << 17;
					v.extend_from_slice(&st.to_le_bytes());
				}
				v.truncate(*n);
				v
			})
			.collect()
	});
	&all[BIG_TILES.iter().position(|t| *t == c).unwrap()]
}

/// payload classes at the small end: 0 bytes, 1 byte, "looks compressed" (directory sources, which can hold a 0-byte file)
const TINY: [(u8, u32, u32); 4] = [(1, 0, 0), (1, 1, 0), (1, 0, 1), (1, 1, 1)];
const M31: u32 = 0x7fff_ffff; // 2^31 - 1
const M30: u32 = 0x3fff_ffff;
const Z31_LO: [(u8, u32, u32); 5] = [(30, 0, 0), (30, 1, 1), (31, 0, 0), (31, 1, 0), (31, 3, 2)];
const Z31_HI: [(u8, u32, u32); 5] = [(30, M30, M30), (30, M30 - 1, M30), (31, M31, M31), (31, M31 - 1, M31), (31, M31, M31 - 2)];
/// `fault_dir`: (1,1,1) is deleted, (2,1,2) is replaced by a directory after start-up
const FAULT_DIR_INTACT: [(u8, u32, u32); 6] = [(0, 0, 0), (1, 0, 0), (2, 3, 3), (3, 7, 0), (3, 0, 7), (3, 4, 5)];

fn coords_str(t: &[(u8, u32, u32)]) -> String {
	if t.is_empty() {
		return "-".into();
	}
	t.iter().map(|(z, x, y)| format!("{z}/{x}/{y}")).collect::<Vec<_>>().join(",")
}

fn parse_format(s: &str) -> TileFormat {
	TileFormat::parse_str(s).unwrap()
}

/// payload stored at a coordinate (deterministic, distinct per coordinate, compressible enough to make recompression visible)
fn payload(fmt: &str, c: (u8, u32, u32)) -> Vec<u8> {
	let mut v: Vec<u8> = if fmt == "png" { MOCK_BYTES_PNG.to_vec() } else { MOCK_BYTES_PBF.to_vec() };
	let stamp = format!("|tile {}/{}/{} of format {fmt}|", c.0, c.1, c.2);
	for _ in 0..6 {
		v.extend_from_slice(stamp.as_bytes());
	}
	v
}

#[derive(Clone, Debug)]
struct SourceDef {
	id: String,
	container: &'static str,
	/// compression the container DECLARES (header / file extension / mbtiles format row)
	comp: TileCompression,
	/// encoding the stored tile bytes really have; differs from `comp` only for the mislabelled sources that
	/// are served with `--override-input-compression <actual>`
	actual: TileCompression,
	fmt: &'static str,
	path: PathBuf,
	/// tile set: "std" = TILES, "big" = BIG_TILES (large incompressible payloads), "z31lo"/"z31hi" = tiles at zoom 30/31 at
	/// the origin / the far corner of the level, "fault_*" = TILES, partly or wholly made unreadable after the server started
	set: &'static str,
	/// written by the independent encoders of `indep_formats.rs` with non-canonical layout choices instead of the repo's writer
	indep: bool,
}
impl SourceDef {
	fn mislabelled(&self) -> bool {
		self.comp != self.actual
	}
	fn big(&self) -> bool {
		self.set == "big"
	}
	/// tiles written into the container
	fn written(&self) -> &'static [(u8, u32, u32)] {
		match self.set {
			"big" => &BIG_TILES,
			"z31lo" => &Z31_LO,
			"z31hi" => &Z31_HI,
			"tiny" => &TINY,
			"ann" => &ANN_TILES,
			_ => &TILES,
		}
	}
	/// tiles the running server can still deliver (what the statement calls "the source holds a tile")
	fn tiles(&self) -> &'static [(u8, u32, u32)] {
		match self.set {
			"fault_dir" => &FAULT_DIR_INTACT,
			"fault_tar" | "fault_versatiles" => &[],
			_ => self.written(),
		}
	}
	fn payload(&self, c: (u8, u32, u32)) -> Vec<u8> {
		if self.set == "tiny" {
			return match TINY.iter().position(|t| *t == c).unwrap() {
				0 => vec![],                          // a zero-length tile
				1 => vec![0x42],                      // one byte
				2 => crate::c04::gz_enc(b"x", 6),     // a payload that is itself a gzip stream
				_ => vec![0x1f, 0x8b, 0x08],          // the gzip magic and nothing else
			};
		}
		if self.big() {
			big_payload(c).clone()
		} else {
			payload(self.fmt, c)
		}
	}
}

fn source_defs(dir: &PathBuf, thorough: bool) -> Vec<SourceDef> {
	use TileCompression::*;
	let mut v: Vec<(&'static str, TileCompression, TileCompression, &'static str)> = vec![];
	for container in ["versatiles", "pmtiles"] {
		for comp in COMPS {
			for fmt in ["pbf", "png"] {
				v.push((container, comp, comp, fmt));
			}
		}
	}
	for container in ["tar", "directory"] {
		for comp in COMPS {
			v.push((container, comp, comp, "pbf"));
		}
	}
	v.push(("mbtiles", Gzip, Gzip, "pbf"));
	v.push(("mbtiles", Uncompressed, Uncompressed, "png"));
	// the other media types (incompressible rule is keyed by MIME)
	for fmt in ["jpg", "webp", "avif", "svg", "json", "geojson", "topojson", "bin"] {
		v.push(("versatiles", Uncompressed, Uncompressed, fmt));
		if thorough || fmt == "avif" || fmt == "svg" {
			v.push(("versatiles", Gzip, Gzip, fmt));
			v.push(("versatiles", Brotli, Brotli, fmt));
		}
	}
	// mislabelled sources: the stored bytes are encoded differently from what the container declares
	// (e.g. gzip'ed `z/x/y.pbf` files in a directory or tar); served only with `--override-input-compression`
	for container in ["versatiles", "pmtiles", "tar", "directory"] {
		for declared in COMPS {
			for actual in COMPS {
				if declared != actual {
					v.push((container, declared, actual, "pbf"));
				}
			}
		}
	}
	v.push(("versatiles", Uncompressed, Gzip, "png"));
	v.push(("directory", Gzip, Uncompressed, "png"));
	v.push(("mbtiles", Gzip, Uncompressed, "pbf"));
	v.push(("mbtiles", Gzip, Brotli, "pbf"));
	v.push(("mbtiles", Uncompressed, Gzip, "png"));
	v.into_iter()
		.map(|(container, comp, actual, fmt)| {
			let id = if comp == actual {
				format!("{}_{}_{}", &container[..1], cname(comp), fmt)
			} else {
				format!("{}_{}_{}_really_{}", &container[..1], cname(comp), fmt, cname(actual))
			};
			let path = if container == "directory" { dir.join(format!("{id}_dir")) } else { dir.join(format!("{id}.{container}")) };
			SourceDef { path, id, container, comp, actual, fmt, set: "std", indep: false }
		})
		.chain(
			// large tiles: one source per stored compression (+ one pmtiles), vector format so that nothing is "incompressible by MIME"
			[("versatiles", Uncompressed), ("versatiles", Gzip), ("versatiles", Brotli), ("pmtiles", Gzip)].into_iter().map(|(container, comp)| {
				let id = format!("big_{}_{}", &container[..1], cname(comp));
				SourceDef { path: dir.join(format!("{id}.{container}")), id, container, comp, actual: comp, fmt: "pbf", set: "big", indep: false }
			}),
		)
		.chain(
			// tiles at zoom 30 and 31 (z ≤ 31 is legal everywhere): near the origin and at the far corner of the level
			[("versatiles", Gzip, "z31lo"), ("versatiles", Uncompressed, "z31hi"), ("pmtiles", Brotli, "z31hi"), ("directory", Gzip, "z31lo"), ("directory", Uncompressed, "z31hi")].into_iter().map(|(container, comp, set)| {
				let id = format!("{set}_{}_{}", &container[..1], cname(comp));
				let path = if container == "directory" { dir.join(format!("{id}_dir")) } else { dir.join(format!("{id}.{container}")) };
				SourceDef { path, id, container, comp, actual: comp, fmt: "pbf", set, indep: false }
			}),
		)
		.chain(
			// sources that are damaged AFTER the server has opened them: lookups fail inside the reader
			[("directory", Gzip, "fault_dir"), ("tar", Gzip, "fault_tar"), ("versatiles", Gzip, "fault_versatiles")].into_iter().map(|(container, comp, set)| {
				let id = set.to_string();
				let path = if container == "directory" { dir.join(format!("{id}_dir")) } else { dir.join(format!("{id}.{container}")) };
				SourceDef { path, id, container, comp, actual: comp, fmt: "pbf", set, indep: false }
			}),
		)
		.chain(
			[Uncompressed, Gzip, Brotli].into_iter().map(|comp| {
				let id = format!("tiny_d_{}", cname(comp));
				SourceDef { path: dir.join(format!("{id}_dir")), id, container: "directory", comp, actual: comp, fmt: "pbf", set: "tiny", indep: false }
			}),
		)
		.chain(
			// containers NOT written by the repo's writers: shuffled blocks / index, reverse blob order, shared offsets
			// (versatiles); leaf directories, run-length entries, unusual section order (pmtiles)
			[("versatiles", Gzip, "pbf"), ("versatiles", Uncompressed, "png"), ("pmtiles", Gzip, "pbf"), ("pmtiles", Brotli, "pbf")].into_iter().map(|(container, comp, fmt)| {
				let id = format!("indep_{}_{}_{}", &container[..1], cname(comp), fmt);
				SourceDef { path: dir.join(format!("{id}.{container}")), id, container, comp, actual: comp, fmt, set: "std", indep: true }
			}),
		)
		.collect()
}

fn write_indep(d: &SourceDef, tiles: &[((u8, u32, u32), Vec<u8>)]) {
	use crate::indep_formats as f;
	let map: f::TileMap = tiles.iter().cloned().collect();
	let mut rng = Rng::new(0x1de9 ^ d.id.len() as u64);
	let comp = match d.comp {
		TileCompression::Uncompressed => f::Comp::None,
		TileCompression::Gzip => f::Comp::Gzip,
		TileCompression::Brotli => f::Comp::Brotli,
	};
	let fmt = f::Fmt::from_name(d.fmt).unwrap();
	let bytes = if d.container == "versatiles" {
		let mut ch = f::VtChoices::plain(fmt, comp);
		ch.meta = Some(b"{\"tilejson\":\"3.0.0\",\"name\":\"indep\"}".to_vec());
		ch.range_mode = 1;
		ch.shuffle_blocks = true;
		ch.shuffle_index = true;
		ch.blob_order = 2;
		ch.share = true;
		ch.max_gap = 7;
		f::encode_versatiles(&map, &ch, &mut rng).bytes
	} else {
		let mut ch = f::PmChoices::plain(fmt.pm_type().unwrap(), comp.pm_code());
		ch.meta = b"{\"name\":\"indep\"}".to_vec();
		ch.levels = 2;
		ch.fan_leaf = 3;
		ch.merge_runs = true;
		ch.share = true;
		ch.section_order = [2, 0, 1];
		ch.max_gap = 5;
		f::encode_pmtiles(&map, &ch, &mut rng).bytes
	};
	std::fs::write(&d.path, bytes).unwrap();
}

fn write_sources(defs: &[SourceDef], rt: &tokio::runtime::Runtime) {
	for d in defs {
		let tiles: Vec<((u8, u32, u32), Vec<u8>)> = d
			.written()
			.iter()
			.map(|c| {
				let p = d.payload(*c);
				// large blobs: cheapest encoder settings (the stored size is what matters)
				let enc = if d.big() && d.actual == TileCompression::Gzip { crate::c04::gz_enc(&p, 1) } else if d.big() && d.actual == TileCompression::Brotli { crate::c04::br_enc(&p, 1, 22) } else { indep_enc(d.actual, &p) };
				(*c, enc)
			})
			.collect();
		if d.indep {
			write_indep(d, &tiles);
			continue;
		}
		let tj = TileJSON::try_from("{\"tilejson\":\"3.0.0\",\"name\":\"c05\"}").unwrap();
		let mut reader = MemReader::new(parse_format(d.fmt), d.comp, tj, &tiles);
		if d.container == "directory" {
			std::fs::create_dir_all(&d.path).unwrap();
		}
		rt.block_on(write_to_filename(&mut reader, d.path.to_str().unwrap())).unwrap_or_else(|e| panic!("cannot write {:?}: {e:#}", d.path));
	}
}

// ---------------------------------------------------------------------------------------------
// server processes
// ---------------------------------------------------------------------------------------------
struct Server {
	/// `None`: a `TileServer` running inside this process (hook `versatiles/verif`)
	child: Option<Child>,
	port: u16,
	fast: bool,
	flip: bool,
	swap: bool,
	/// `--override-input-compression`
	ovr: Option<TileCompression>,
	/// the sources this instance serves
	defs: Vec<SourceDef>,
}
impl Server {
	fn mode(&self) -> String {
		let mut m: Vec<String> = vec![];
		if self.fast {
			m.push("fast".into());
		}
		if self.flip {
			m.push("flip".into());
		}
		if self.swap {
			m.push("swap".into());
		}
		if let Some(o) = self.ovr {
			m.push(format!("override-{}", cname(o)));
		}
		if m.is_empty() {
			"best".into()
		} else {
			m.join("+")
		}
	}
}
impl Drop for Server {
	fn drop(&mut self) {
		if let Some(c) = self.child.as_mut() {
			let _ = c.kill();
			let _ = c.wait();
		}
	}
}

fn free_port() -> u16 {
	let l = TcpListener::bind("127.0.0.1:0").unwrap();
	l.local_addr().unwrap().port()
}

fn start_server(bin: &str, defs: &[SourceDef], fast: bool, flip: bool, swap: bool, ovr: Option<TileCompression>, logdir: &PathBuf) -> Server {
	start_server_x(bin, defs, fast, flip, swap, ovr, &[], logdir)
}

/// `extra`: further command line arguments (`-s …`, `--disable-api`, additional `file[id]` sources)
fn start_server_x(bin: &str, defs: &[SourceDef], fast: bool, flip: bool, swap: bool, ovr: Option<TileCompression>, extra: &[String], logdir: &PathBuf) -> Server {
	for attempt in 0..5 {
		let port = free_port();
		let mut cmd = Command::new(bin);
		cmd.arg("serve").arg("-i").arg("127.0.0.1").arg("-p").arg(port.to_string());
		if fast {
			cmd.arg("--fast");
		}
		if flip {
			cmd.arg("--flip-y");
		}
		if swap {
			cmd.arg("--swap-xy");
		}
		if let Some(o) = ovr {
			cmd.arg("--override-input-compression").arg(match o {
				TileCompression::Uncompressed => "uncompressed",
				TileCompression::Gzip => "gzip",
				TileCompression::Brotli => "brotli",
			});
		}
		for d in defs {
			cmd.arg(format!("{}[{}]", d.path.to_str().unwrap(), d.id));
		}
		for a in extra {
			cmd.arg(a);
		}
		let log = std::fs::File::create(logdir.join(format!("server_{port}.log"))).unwrap();
		cmd.stdin(Stdio::null()).stdout(Stdio::null()).stderr(Stdio::from(log));
		let child = cmd.spawn().expect("cannot start the versatiles binary (VTH_BIN)");
		let mut srv = Server { child: Some(child), port, fast, flip, swap, ovr, defs: defs.to_vec() };
		let t0 = Instant::now();
		let mut up = false;
		while t0.elapsed() < Duration::from_secs(20) {
			if let Some(Ok(Some(_))) = srv.child.as_mut().map(|c| c.try_wait()) {
				break; // exited (port taken, …)
			}
			if let Some(r) = http_get(port, "/status", None) {
				if r.status == 200 {
					up = true;
					break;
				}
			}
			std::thread::sleep(Duration::from_millis(50));
		}
		if up {
			return srv;
		}
		drop(srv);
		eprintln!("server did not come up on port {port} (attempt {attempt}), retrying");
	}
	eprintln!("infrastructure error: cannot start versatiles serve");
	std::process::exit(3);
}

// ---------------------------------------------------------------------------------------------
// raw HTTP
// ---------------------------------------------------------------------------------------------
#[derive(Debug, Clone)]
struct HttpResp {
	status: u16,
	headers: Vec<(String, String)>,
	body: Vec<u8>,
}
impl HttpResp {
	fn header(&self, name: &str) -> Option<&str> {
		self.headers.iter().find(|(k, _)| k == name).map(|(_, v)| v.as_str())
	}
	fn header_count(&self, name: &str) -> usize {
		self.headers.iter().filter(|(k, _)| k == name).count()
	}
}

/// One request on a fresh connection. `None` = no complete HTTP response (dropped connection, truncated body…).
fn http_get(port: u16, target: &str, accept_encoding: Option<&str>) -> Option<HttpResp> {
	let mut s = TcpStream::connect(("127.0.0.1", port)).ok()?;
	s.set_read_timeout(Some(Duration::from_secs(20))).ok()?;
	s.set_write_timeout(Some(Duration::from_secs(20))).ok()?;
	let mut req = format!("GET {target} HTTP/1.1\r\nHost: 127.0.0.1:{port}\r\n");
	if let Some(a) = accept_encoding {
		req.push_str(&format!("Accept-Encoding: {a}\r\n"));
	}
	req.push_str("Connection: close\r\n\r\n");
	s.write_all(req.as_bytes()).ok()?;
	let mut buf = Vec::new();
	let _ = s.read_to_end(&mut buf); // an RST after a partial response still leaves what was received
	parse_http(&buf)
}

fn parse_http(buf: &[u8]) -> Option<HttpResp> {
	let pos = buf.windows(4).position(|w| w == b"\r\n\r\n")?;
	let head = std::str::from_utf8(&buf[..pos]).ok()?;
	let mut lines = head.split("\r\n");
	let status_line = lines.next()?;
	let mut st = status_line.split(' ');
	if !st.next()?.starts_with("HTTP/1.") {
		return None;
	}
	let status: u16 = st.next()?.parse().ok()?;
	let headers: Vec<(String, String)> = lines.filter_map(|l| l.split_once(':').map(|(k, v)| (k.trim().to_ascii_lowercase(), v.trim().to_string()))).collect();
	let raw = &buf[pos + 4..];
	let get = |n: &str| headers.iter().find(|(k, _)| k == n).map(|(_, v)| v.clone());
	let body = if get("transfer-encoding").is_some_and(|v| v.to_ascii_lowercase().contains("chunked")) {
		let mut out = vec![];
		let mut i = 0usize;
		loop {
			let e = raw[i..].windows(2).position(|w| w == b"\r\n")? + i;
			let n = usize::from_str_radix(std::str::from_utf8(&raw[i..e]).ok()?.split(';').next()?.trim(), 16).ok()?;
			i = e + 2;
			if n == 0 {
				break;
			}
			if i + n + 2 > raw.len() {
				return None;
			}
			out.extend_from_slice(&raw[i..i + n]);
			i += n + 2;
		}
		out
	} else if let Some(cl) = get("content-length") {
		let n: usize = cl.parse().ok()?;
		if raw.len() != n {
			return None; // truncated or over-long body
		}
		raw.to_vec()
	} else {
		raw.to_vec()
	};
	Some(HttpResp { status, headers, body })
}

// ---------------------------------------------------------------------------------------------
// request generation
// ---------------------------------------------------------------------------------------------
/// what the property statement says about a request (independent of the model)
#[derive(Clone, Debug, PartialEq)]
enum Expect {
	/// canonical `<z>/<x>/<y>[.ext]`: 200 iff the container holds (z,x,y)
	Coord(u64, u64, u64),
	/// cannot be parsed as a coordinate: 400
	Unparsable,
	/// not a tile request in the property's sense: any complete response with 200/400/404
	Complete,
}

fn gen_rest(rng: &mut Rng) -> (String, Expect, &'static str) {
	let exts = ["", "", ".pbf", ".png", ".xyz", ".", ".5"];
	let ext = *rng.pick(&exts);
	let k = rng.below(100);
	if k < 30 {
		// stored tile
		let (z, x, y) = *rng.pick(&TILES);
		(format!("{z}/{x}/{y}{ext}"), Expect::Coord(z as u64, x as u64, y as u64), "stored")
	} else if k < 42 {
		// in range, mostly absent
		let z = rng.range(0, 4);
		let n = 1u64 << z;
		let (x, y) = (rng.below(n), rng.below(n));
		(format!("{z}/{x}/{y}{ext}"), Expect::Coord(z, x, y), "in_range")
	} else if k < 60 {
		// out of range x / y at a level with or without tiles
		let z = *rng.pick(&[0u64, 1, 2, 3, 3, 5, 17, 30, 31]);
		let n = 1u64 << z;
		let big = [n, n + 1, n + 5, 2 * n, u32::MAX as u64, (u32::MAX - 1) as u64, n.saturating_sub(1)];
		let (x, y) = match rng.below(3) {
			0 => (*rng.pick(&big), rng.below(n)),
			1 => (rng.below(n), *rng.pick(&big)),
			_ => (*rng.pick(&big), *rng.pick(&big)),
		};
		let (x, y) = (x.min(u32::MAX as u64), y.min(u32::MAX as u64));
		(format!("{z}/{x}/{y}{ext}"), Expect::Coord(z, x, y), "out_of_range")
	} else if k < 68 {
		// zoom beyond anything
		let z = *rng.pick(&[4u64, 12, 29, 30, 31]);
		let n = 1u64 << z;
		let (x, y) = (rng.below(n).min(u32::MAX as u64), rng.below(n).min(u32::MAX as u64));
		(format!("{z}/{x}/{y}{ext}"), Expect::Coord(z, x, y), "deep_zoom")
	} else if k < 76 {
		// z that `TileCoord3::new` refuses or that does not fit u8; x / y that do not fit u32
		let s = match rng.below(5) {
			0 => format!("{}/0/0{ext}", rng.range(32, 255)),
			1 => format!("{}/0/0{ext}", *rng.pick(&[256u64, 300, 1000, 4294967296])),
			2 => format!("1/{}/0{ext}", *rng.pick(&[4294967296u64, 99999999999])),
			3 => format!("1/0/{}{ext}", *rng.pick(&[4294967296u64, 99999999999])),
			_ => format!("{}/{}/{}", 255, u32::MAX, u32::MAX),
		};
		(s, Expect::Unparsable, "unrepresentable")
	} else if k < 86 {
		let s = match rng.below(12) {
			0 => "a/b/c".to_string(),
			1 => format!("x/0/0{ext}"),
			2 => format!("1/x/0{ext}"),
			3 => format!("1/0/y{ext}"),
			4 => "1/0/.png".to_string(),
			5 => "-1/0/0".to_string(),
			6 => "1/-0/0".to_string(),
			7 => "1/0/-0".to_string(),
			8 => "1.0/0/0".to_string(),
			9 => "1/0x1/0".to_string(),
			10 => "%31/0/0".to_string(),
			_ => "1/0/+0".to_string(),
		};
		(s, Expect::Unparsable, "non_numeric")
	} else if k < 93 {
		// not of the canonical form, but the code has an opinion (the model is compared, the oracle wants a complete response)
		let (z, x, y) = *rng.pick(&TILES);
		let s = match rng.below(9) {
			0 => format!("+{z}/{x}/{y}"),
			1 => format!("0{z}/00{x}/000{y}.pbf"),
			2 => format!("{z}//{x}/{y}"),
			3 => format!("/{z}/{x}///{y}/"),
			4 => format!("{z}/{x}/{y}/extra"),
			5 => format!("{z}/{x}/{y}abc"),
			6 => format!("{z}/+{x}/{y}"),
			7 => format!("{z}/{x}/{y}/"),
			_ => format!("{z}/{x}/{y}.png/more/parts"),
		};
		(s, Expect::Complete, "non_canonical")
	} else {
		let s = match rng.below(12) {
			0 => "".to_string(),
			1 => "/".to_string(),
			2 => "//".to_string(),
			3 => "///".to_string(),
			4 => "1".to_string(),
			5 => "1/0".to_string(),
			6 => "tiles.json".to_string(),
			7 => "meta.json".to_string(),
			8 => "tiles.json/x".to_string(),
			9 => "foo".to_string(),
			10 => "1/0/".to_string(),
			_ => "/tiles.json".to_string(),
		};
		(s, Expect::Complete, "short")
	}
}

const TOKENS: [&str; 5] = ["gzip", "br", "deflate", "identity", "zstd"];

/// Accept-Encoding value: a subset of the tokens in some order, random case, positive weights. Returns the
/// header value and the lower-cased tokens listed.
fn gen_accept(rng: &mut Rng) -> (Option<String>, Vec<String>, &'static str) {
	let k = rng.below(100);
	if k < 10 {
		return (None, vec![], "absent");
	}
	if k < 13 {
		return (Some(String::new()), vec![], "empty");
	}
	if k < 16 {
		return (Some("*".into()), vec!["*".into()], "star");
	}
	let mut toks: Vec<&str> = TOKENS.to_vec();
	// shuffle
	for i in (1..toks.len()).rev() {
		let j = rng.below(i as u64 + 1) as usize;
		toks.swap(i, j);
	}
	let n = rng.range(1, 5) as usize;
	toks.truncate(n);
	let case = rng.below(10); // 0..6 lower, 7 upper, 8 mixed, 9 capitalised
	let sep = *rng.pick(&[", ", ",", " , ", ",  "]);
	let mut listed = vec![];
	let items: Vec<String> = toks
		.iter()
		.map(|t| {
			let t2: String = match case {
				7 => t.to_ascii_uppercase(),
				8 => t.chars().enumerate().map(|(i, c)| if i % 2 == 0 { c.to_ascii_uppercase() } else { c }).collect(),
				9 => {
					let mut c = t.chars();
					c.next().map(|f| f.to_ascii_uppercase().to_string() + c.as_str()).unwrap_or_default()
				}
				_ => t.to_string(),
			};
			listed.push(t.to_string());
			match rng.below(6) {
				0 => format!("{t2};q=1"),
				1 => format!("{t2};q=0.{}", rng.range(1, 9)),
				2 => format!("{t2}; q=0.00{}", rng.range(1, 9)),
				3 => format!("{t2};q=1.0"),
				_ => t2,
			}
		})
		.collect();
	(Some(items.join(sep)), listed, if case >= 7 { "list_other_case" } else { "list_lower" })
}

// ---------------------------------------------------------------------------------------------
// one request: model line + direct oracle
// ---------------------------------------------------------------------------------------------
struct Ctx<'a> {
	servers: &'a [Server],
	defs: &'a [SourceDef],
}

fn hex_or_tilde(s: &Option<String>) -> String {
	match s {
		None => "~".into(),
		Some(v) => hex(v.as_bytes()),
	}
}

fn do_request(out: &mut Out, cx: &Ctx, srv: &Server, d: &SourceDef, rest: &str, accept: &Option<String>, expect: Option<(Expect, Vec<String>)>, class: &str) {
	// the server's assumption about the stored bytes is wrong: sources that lie about their compression, served without
	// the matching override (only on the "corrupt" instances)
	let corrupt = srv.ovr.unwrap_or(d.comp) != d.actual;
	let line = format!(
		"C05 {} {} {} {} {} {} {} {} {} {}{}",
		if corrupt { "req3" } else { "req2" },
		srv.fast as u8,
		srv.flip as u8,
		srv.swap as u8,
		cname(d.comp),
		srv.ovr.map_or("-", cname),
		d.fmt,
		coords_str(d.tiles()),
		hex_or_tilde(accept),
		hex(rest.as_bytes()),
		if corrupt { " 1" } else { "" }
	);
	let _ = cx;
	let target = format!("/tiles/{}/{}", d.id, rest);
	let resp = http_get(srv.port, &target, accept.as_deref());
	let mode = srv.mode();
	let mode = mode.as_str();
	// what the server has to assume about the stored bytes must be what they really are, else the set-up is wrong
	let sig = |kind: &str| json!({"kind": kind, "class": class, "container": d.container, "mode": mode, "mislabelled": d.mislabelled()});
	let detail = |extra: serde_json::Value| json!({"case": line, "request": target, "accept_encoding": accept, "source": d.id, "mode": mode, "info": extra});
	let ans = match &resp {
		None => "dropped".to_string(),
		Some(r) if r.status == 200 => format!("200 ct={} ce={}", r.header("content-type").unwrap_or("-"), r.header("content-encoding").unwrap_or("-")),
		Some(r) => format!("{}", r.status),
	};
	// ---- direct oracle ----
	match &resp {
		None => out.oracle(false, "C05 no complete HTTP response (connection dropped)", sig("dropped"), detail(json!(null))),
		Some(r) => {
			out.oracle(matches!(r.status, 200 | 400 | 404) || (corrupt && r.status == 500), "C05 unexpected status", sig("status_other"), detail(json!({"status": r.status})));
			if corrupt {
				// undecodable stored data: "fail loudly (500) or deliver it as stored", never anything else
				if r.status == 200 {
					let stored_ok = d.tiles().iter().any(|c| indep_enc(d.actual, &d.payload(*c)) == r.body);
					let labelled = r.header("content-encoding").map(|s| s.to_string()) == match d.comp { TileCompression::Uncompressed => None, TileCompression::Gzip => Some("gzip".to_string()), TileCompression::Brotli => Some("br".to_string()) };
					out.oracle(stored_ok && labelled, "C05 undecodable stored tile answered with something else than the stored bytes", sig("corrupt_body"), detail(json!({"status": r.status})));
				}
			} else if let Some((exp, listed)) = &expect {
				match exp {
					Expect::Coord(z, x, y) => {
						// which stored tile is served at (z,x,y)?  The server presents the container's tiles transformed:
						// `--flip-y` counts rows from the other end, then `--swap-xy` exchanges the axes.
						let stored = d.tiles().iter().find(|c| {
							let n = 1u64 << c.0;
							let (mut sx, mut sy) = (c.1 as u64, c.2 as u64);
							if srv.flip {
								sy = n - 1 - sy;
							}
							if srv.swap {
								std::mem::swap(&mut sx, &mut sy);
							}
							c.0 as u64 == *z && sx == *x && sy == *y
						});
						match stored {
							Some(c) => {
								out.oracle(r.status == 200, "C05 stored tile not served with 200", sig("status_hit"), detail(json!({"status": r.status})));
								if r.status == 200 {
									let ct_ok = r.header("content-type") == Some(parse_format(d.fmt).as_mime_str()) && r.header_count("content-type") == 1;
									out.oracle(ct_ok, "C05 content-type", sig("content_type"), detail(json!({"content_type": r.header("content-type")})));
									let ce = r.header("content-encoding").map(|s| s.to_ascii_lowercase());
									let ce_ok = r.header_count("content-encoding") <= 1 && ce.as_ref().is_none_or(|t| listed.iter().any(|l| l == t));
									out.oracle(ce_ok, "C05 content-encoding not listed by the client", sig("encoding_not_listed"), detail(json!({"content_encoding": ce, "listed": listed})));
									let dec = match ce.as_deref() {
										None => Some(r.body.clone()),
										Some("gzip") => gz_dec(&r.body),
										Some("br") => br_dec(&r.body),
										Some(_) => None,
									};
									out.oracle(
										dec.as_ref() == Some(&d.payload(*c)),
										"C05 body is not the stored tile",
										sig("body"),
										detail(json!({"content_encoding": ce, "body_len": r.body.len(), "decoded_len": dec.as_ref().map(|d| d.len())})),
									);
								}
							}
							None => out.oracle(r.status == 404, "C05 absent tile not answered with 404", sig("status_miss"), detail(json!({"status": r.status}))),
						}
					}
					Expect::Unparsable => out.oracle(r.status == 400, "C05 unparsable coordinate not answered with 400", sig("status_unparsable"), detail(json!({"status": r.status}))),
					Expect::Complete => {}
				}
			}
		}
	}
	let nontrivial = resp.as_ref().is_some_and(|r| r.status == 200) || class == "out_of_range" || class == "short";
	out.case(&line, &ans, nontrivial);
	out.count(&format!("path_{class}"));
	out.count(&format!("status_{}", resp.as_ref().map_or("dropped".to_string(), |r| r.status.to_string())));
	out.count(&format!("mode_{mode}"));
	out.count(&format!("container_{}", d.container));
	if let Some(r) = &resp {
		if r.status == 200 {
			out.count(&format!("ce_{}", r.header("content-encoding").unwrap_or("none")));
		}
	}
}

// ---------------------------------------------------------------------------------------------
// optimize_compression: whole decision table on the real function
// ---------------------------------------------------------------------------------------------
fn opt_case(out: &mut Out, c: TileCompression, bits: [bool; 3], goal: &str, kind: &str, pl: &[u8]) {
	let line = format!(
		"C05 opt {} {}{}{} {} {} {}",
		cname(c),
		bits[0] as u8,
		bits[1] as u8,
		bits[2] as u8,
		goal,
		kind,
		hex(pl)
	);
	let enc = compress(Blob::from(pl.to_vec()), &c).unwrap().into_vec();
	let blob = match kind {
		"enc" => enc,
		"nil" => vec![],
		_ => enc[..enc.len().saturating_sub(1)].to_vec(),
	};
	let mut set = EnumSet::new();
	for (i, comp) in COMPS.iter().enumerate() {
		if bits[i] {
			set.insert(*comp);
		}
	}
	let mut tgt = TargetCompression::from_set(set);
	match goal {
		"fast" => tgt.set_fast_compression(),
		"inc" => tgt.set_incompressible(),
		_ => {}
	}
	let r = catch(|| optimize_compression(Blob::from(blob.clone()), &c, &tgt).ok().map(|(b, c2)| (b.into_vec(), c2)));
	let ans = match &r {
		Ok(Some((b2, c2))) => {
			let dec = versatiles_core::utils::decompress(Blob::from(b2.clone()), c2).ok().map(|b| b.into_vec());
			format!("c={} same={} dec={}", cname(*c2), (b2 == &blob) as u8, dec.map_or("err".into(), |d| hex(&d)))
		}
		Ok(None) => "err".into(),
		Err(_) => "panic".into(),
	};
	// oracle from the statement: the result is allowed and carries the same payload
	let ok = match &r {
		Ok(Some((b2, c2))) => {
			let idx = COMPS.iter().position(|x| x == c2).unwrap();
			bits[idx] && indep_dec(*c2, b2) == indep_dec(c, &blob)
		}
		Ok(None) => !bits[0] || indep_dec(c, &blob).is_none(), // refusing is only right without 'Uncompressed' or for an undecodable blob
		Err(_) => false,
	};
	out.oracle(ok, "C05 optimize_compression", json!({"kind":"optimize","input":cname(c),"allowed":format!("{}{}{}", bits[0] as u8, bits[1] as u8, bits[2] as u8),"goal":goal,"blob":kind}), json!({"case": line}));
	out.case(&line, &ans, bits[0] && kind == "enc");
	out.count("opt_cases");
}

/// reader-level: coordinates outside the level must give `None`/`Err`, not a panic (the second half of F9)
fn reader_case(out: &mut Out, d: &SourceDef, flip: bool, c: (u8, u32, u32), rt: &tokio::runtime::Runtime) {
	let path = d.path.clone();
	let r = catch(|| {
		rt.block_on(async {
			let reader: Box<dyn TilesReaderTrait> = if d.container == "mbtiles" {
				MBTilesReader::open_path(&path)?.boxed()
			} else {
				versatiles_container::get_reader(path.to_str().unwrap()).await?
			};
			let reader: Box<dyn TilesReaderTrait> = if flip {
				let mut cp = TilesConverterParameters::new_default();
				cp.flip_y = true;
				TilesConvertReader::new_from_reader(reader, cp)?.boxed()
			} else {
				reader
			};
			let coord = TileCoord3::new(c.1, c.2, c.0)?;
			anyhow::Ok(reader.get_tile_data(&coord).await.ok().flatten().is_some())
		})
	});
	let in_range = (c.1 as u64) < (1u64 << c.0) && (c.2 as u64) < (1u64 << c.0);
	let ok = if in_range { matches!(r, Ok(Ok(_))) } else { matches!(r, Ok(Ok(false))) };
	out.oracle(
		ok,
		"C05 reader lookup outside the level",
		json!({"kind":"reader_out_of_range","container":d.container,"flip":flip,"outcome": match &r { Ok(Ok(true)) => "tile", Ok(Ok(false)) => "none", Ok(Err(_)) => "open-error", Err(_) => "panic" }}),
		json!({"case": format!("C05 reader {} {} {}/{}/{}", d.id, flip as u8, c.0, c.1, c.2), "panic": r.as_ref().err().map(|m| trunc(m, 160))}),
	);
	out.eval(&format!("reader {} {flip} {c:?}", d.id), true);
	out.count("reader_level_lookups");
}

fn reader_out_of_range(out: &mut Out, defs: &[SourceDef], rt: &tokio::runtime::Runtime) {
	let coords: Vec<(u8, u32, u32)> = vec![(0, 0, 1), (1, 0, 2), (1, 2, 0), (2, 1, 4), (3, 0, 8), (3, 7, u32::MAX), (5, 0, 32), (31, 0, u32::MAX), (3, u32::MAX, u32::MAX)];
	for d in defs.iter().filter(|d| (d.fmt == "pbf" || d.fmt == "png") && d.set == "std" && !d.mislabelled() && matches!(d.container, "versatiles" | "pmtiles" | "mbtiles")) {
		for flip in [false, true] {
			if d.container != "mbtiles" && !flip {
				continue; // plain versatiles/pmtiles lookups are covered over HTTP
			}
			for c in &coords {
				reader_case(out, d, flip, *c, rt);
			}
		}
	}
}

/// requests outside the model's alphabet (raw UTF-8, control-ish escapes, huge numbers, repeated headers):
/// the statement still demands a complete response with 200/400/404
fn odd_requests(out: &mut Out, servers: &[Server]) {
	let long_digits = "9".repeat(400);
	let rests: Vec<String> = vec![
		"%00/0/0".to_string(),
		"1/0/0%2e%2e".to_string(),
		format!("{long_digits}/0/0"),
		format!("1/{long_digits}/0"),
		format!("1/0/{long_digits}"),
		"1/0/0?x=1/2/3".to_string(),
		"1/0/0;v=1".to_string(),
		"..//../1/0/0".to_string(),
		"1/0/0/..".to_string(),
		"٣/٠/٠".to_string(),
		"1/0/٣".to_string(),
		"1/0/0²".to_string(),
	];
	for srv in servers {
		for d in srv.defs.iter().filter(|d| d.fmt == "pbf").take(4) {
			for rest in &rests {
				let target = format!("/tiles/{}/{}", d.id, rest);
				let resp = http_get(srv.port, &target, Some("gzip, br"));
				// hyper may refuse the request line itself (400) – still a complete response
				let ok = resp.as_ref().is_some_and(|r| matches!(r.status, 200 | 400 | 404));
				out.oracle(
					ok,
					"C05 odd request: no complete 200/400/404 response",
					json!({"kind":"odd_request","container":d.container,"dropped":resp.is_none()}),
					json!({"case": format!("C05 odd {}", hex(target.as_bytes())), "request": target, "status": resp.as_ref().map(|r| r.status)}),
				);
				out.eval(&format!("odd {} {} {}", srv.port, d.id, rest), true);
				out.count("odd_requests");
			}
			// two Accept-Encoding headers: only the first one may be used, and only what it lists
			let target = format!("/tiles/{}/1/1/1", d.id);
			let r2 = http_get(srv.port, &target, Some("identity\r\nAccept-Encoding: br"));
			let ok = r2.as_ref().is_some_and(|r| matches!(r.status, 200 | 400 | 404) && r.header("content-encoding").is_none_or(|e| e == "br"));
			out.oracle(ok, "C05 odd request: repeated Accept-Encoding", json!({"kind":"odd_repeated_header","container":d.container}), json!({"case": format!("C05 odd2 {}", d.id), "status": r2.as_ref().map(|r| r.status)}));
			out.count("odd_requests");
		}
	}
}

/// replay: what the statement says about a canonical `<z>/<x>/<y>[.ext]` path and a header value
fn replay_expect(rest: &str, accept: &Option<String>) -> Option<(Expect, Vec<String>)> {
	let parts: Vec<&str> = rest.split('/').collect();
	if parts.len() != 3 {
		return None;
	}
	let num = |s: &str| if !s.is_empty() && s.len() < 11 && s.bytes().all(|b| b.is_ascii_digit()) { s.parse::<u64>().ok() } else { None };
	let ypart = parts[2].split('.').next().unwrap_or("");
	let (z, x, y) = (num(parts[0])?, num(parts[1])?, num(ypart)?);
	if z > 31 || x > u32::MAX as u64 || y > u32::MAX as u64 {
		return None;
	}
	let listed: Vec<String> = accept
		.as_deref()
		.unwrap_or("")
		.split(',')
		.map(|t| t.split(';').next().unwrap_or("").trim().to_ascii_lowercase())
		.filter(|t| !t.is_empty())
		.collect();
	// header values outside the property's alphabet (e.g. the corpus line `brot`, which documents the substring
	// matching) are not judged by the "listed" rule; status / content-type / body still are
	let mut listed = listed;
	if listed.iter().any(|t| !TOKENS.contains(&t.as_str()) && t != "*") {
		listed.push("gzip".into());
		listed.push("br".into());
	}
	Some((Expect::Coord(z, x, y), listed))
}

// ---------------------------------------------------------------------------------------------
// every route of the server under every header variant (class 7), option interplay (class 4), repeated requests (class 5),
// precompressed vs on-the-fly (class 10)
// ---------------------------------------------------------------------------------------------
struct StaticFile {
	name: &'static str,
	content: Vec<u8>,
	/// which variants exist on disk / in the tar: plain, .gz, .br
	un: bool,
	gz: bool,
	br: bool,
	mime: &'static str,
}

fn static_files() -> Vec<StaticFile> {
	let text = |tag: &str| -> Vec<u8> { format!("static file {tag}: lorem ipsum dolor sit amet, consetetur sadipscing elitr, sed diam nonumy eirmod tempor {tag} {tag} {tag}\n").repeat(4).into_bytes() };
	vec![
		StaticFile { name: "a.txt", content: text("a"), un: true, gz: false, br: false, mime: "text/plain; charset=utf-8" },
		StaticFile { name: "b.json", content: b"{\"k\":[1,2,3],\"text\":\"aaaaaaaaaaaaaaaaaaaaaaaaaaaaaaaaaaaaaaaaaaaaaaaa\"}".to_vec(), un: true, gz: false, br: false, mime: "application/json" },
		StaticFile { name: "c.png", content: MOCK_BYTES_PNG.to_vec(), un: true, gz: false, br: false, mime: "image/png" },
		StaticFile { name: "d.bin", content: (0..500u32).map(|i| (i * 31 % 256) as u8).collect(), un: true, gz: false, br: false, mime: "application/octet-stream" },
		StaticFile { name: "e.txt", content: text("e"), un: false, gz: false, br: true, mime: "text/plain; charset=utf-8" },
		StaticFile { name: "f.txt", content: text("f"), un: false, gz: true, br: false, mime: "text/plain; charset=utf-8" },
		StaticFile { name: "g.txt", content: text("g"), un: true, gz: true, br: true, mime: "text/plain; charset=utf-8" },
		StaticFile { name: "h.css", content: text("h"), un: false, gz: true, br: true, mime: "text/css; charset=utf-8" },
		StaticFile { name: "i.png", content: MOCK_BYTES_PNG.to_vec(), un: false, gz: true, br: false, mime: "image/png" },
		StaticFile { name: "sub/index.html", content: b"<html><body>sub index sub index sub index sub index sub index</body></html>".to_vec(), un: true, gz: false, br: true, mime: "text/html; charset=utf-8" },
		StaticFile { name: "empty.txt", content: vec![], un: true, gz: false, br: false, mime: "text/plain; charset=utf-8" },
	]
}

fn write_static(dir: &PathBuf) -> (PathBuf, PathBuf, PathBuf) {
	let folder = dir.join("st_folder");
	let folder2 = dir.join("st_folder2");
	let tarp = dir.join("st.tar");
	std::fs::create_dir_all(folder.join("sub")).unwrap();
	std::fs::create_dir_all(&folder2).unwrap();
	let mut tb = tar::Builder::new(std::fs::File::create(&tarp).unwrap());
	let mut add = |name: String, data: &[u8]| {
		std::fs::write(folder.join(&name), data).unwrap();
		let mut h = tar::Header::new_gnu();
		h.set_size(data.len() as u64);
		h.set_mode(0o644);
		tb.append_data(&mut h, &name, data).unwrap();
	};
	for f in static_files() {
		if f.un {
			add(f.name.to_string(), &f.content);
		}
		if f.gz {
			add(format!("{}.gz", f.name), &crate::c04::gz_enc(&f.content, 6));
		}
		if f.br {
			add(format!("{}.br", f.name), &crate::c04::br_enc(&f.content, 5, 22));
		}
	}
	tb.finish().unwrap();
	// second folder: shadows a.txt when it comes first, supplies z.txt
	std::fs::write(folder2.join("a.txt"), b"a.txt of the SECOND folder").unwrap();
	std::fs::write(folder2.join("z.txt"), b"z.txt exists only in the second folder").unwrap();
	(folder, folder2, tarp)
}

/// header variants: (value(s) sent, tokens the client literally listed, model-expressible?)
fn header_variants() -> Vec<(Option<String>, Vec<String>)> {
	let v = |s: &str| Some(s.to_string());
	let l = |t: &[&str]| t.iter().map(|x| x.to_string()).collect::<Vec<_>>();
	vec![
		(None, vec![]),
		(v(""), vec![]),
		(v("*"), l(&["*"])),
		(v("gzip"), l(&["gzip"])),
		(v("br"), l(&["br"])),
		(v("gzip, br"), l(&["gzip", "br"])),
		(v("br;q=0.1, gzip;q=0.9"), l(&["br", "gzip"])),
		(v("GZIP"), l(&["gzip"])),
		(v("Br, Gzip"), l(&["br", "gzip"])),
		(v("gzip;q=0"), l(&["gzip"])), // weight 0 is outside the property's quantifier; the token IS listed
		(v("br;q=0, gzip"), l(&["br", "gzip"])),
		(v("identity"), l(&["identity"])),
		(v("identity;q=0"), l(&["identity"])),
		(v("deflate, zstd"), l(&["deflate", "zstd"])),
		(v("x-gzip"), l(&["x-gzip", "gzip"])),   // out of alphabet: the substring rule answers gzip (alias in RFC 9110)
		(v("brotli"), l(&["brotli", "br"])),     // out of alphabet: the substring rule answers br
		(v("gzip,br,deflate,identity,zstd,*"), l(&["gzip", "br", "deflate", "identity", "zstd", "*"])),
		(v("identity\r\nAccept-Encoding: br"), l(&["identity", "br"])), // two header lines; only the first is looked at
	]
}

/// one request, twice; judged against expected content; returns the decoded body of the first response
#[allow(clippy::too_many_arguments)]
fn route_request(out: &mut Out, port: u16, mode: &str, route: &str, target: &str, acc: &Option<String>, listed: &[String], expect: Option<(&[u8], &str)>, model_line: Option<String>) -> Option<Vec<u8>> {
	let r1 = http_get(port, target, acc.as_deref());
	let r2 = http_get(port, target, acc.as_deref());
	let sig = |kind: &str| json!({"kind": kind, "route": route, "mode": mode});
	let detail = |extra: serde_json::Value| json!({"case": format!("C05 route {} {} {}", mode, hex(target.as_bytes()), hex_or_tilde(acc)), "request": target, "accept_encoding": acc, "info": extra});
	out.eval(&format!("route {mode} {target} {acc:?}"), true);
	out.count(&format!("route_{route}"));
	let ans = match &r1 {
		None => "dropped".to_string(),
		Some(r) if r.status == 200 => format!("200 ct={} ce={}", r.header("content-type").unwrap_or("-"), r.header("content-encoding").unwrap_or("-")),
		Some(r) => format!("{}", r.status),
	};
	if let Some(line) = model_line {
		out.case(&line, &ans, true);
	}
	let (Some(a), Some(b)) = (&r1, &r2) else {
		out.oracle(false, "C05 route: no complete HTTP response", sig("route_dropped"), detail(json!(null)));
		return None;
	};
	// class 5: the second identical request gets the identical answer
	let same = a.status == b.status && a.body == b.body && a.header("content-encoding") == b.header("content-encoding") && a.header("content-type") == b.header("content-type");
	out.oracle(same, "C05 route: repeated request answered differently", sig("route_repeat"), detail(json!({"first": a.status, "second": b.status})));
	let ce = a.header("content-encoding").map(|s| s.to_ascii_lowercase());
	out.oracle(a.header_count("content-encoding") <= 1 && ce.as_ref().is_none_or(|t| listed.iter().any(|l| l == t)), "C05 route: content-encoding not listed by the client", sig("route_encoding_not_listed"), detail(json!({"content_encoding": ce, "listed": listed})));
	let dec = match ce.as_deref() {
		None => Some(a.body.clone()),
		Some("gzip") => gz_dec(&a.body),
		Some("br") => br_dec(&a.body),
		Some(_) => None,
	};
	match expect {
		Some((content, mime)) => {
			out.oracle(a.status == 200, "C05 route: existing resource not served with 200", sig("route_status"), detail(json!({"status": a.status})));
			if a.status == 200 {
				out.oracle(dec.as_deref() == Some(content), "C05 route: body is not the stored content", sig("route_body"), detail(json!({"content_encoding": ce, "body_len": a.body.len()})));
				out.oracle(a.header("content-type") == Some(mime), "C05 route: content-type", sig("route_content_type"), detail(json!({"got": a.header("content-type"), "want": mime})));
			}
		}
		None => out.oracle(a.status == 404, "C05 route: unknown resource not answered with 404", sig("route_status_404"), detail(json!({"status": a.status}))),
	}
	dec
}

fn routes_section(out: &mut Out, args: &Args, bin: &str, dir: &PathBuf, defs: &[SourceDef]) {
	let (folder, folder2, tarp) = write_static(dir);
	let files = static_files();
	let pick = |id: &str| defs.iter().find(|d| d.id == id).unwrap().clone();
	let tile_defs = vec![pick("v_gzip_pbf"), pick("p_raw_png")];
	let vg = pick("v_gzip_pbf");
	// the same container mounted twice, and ids where one is a prefix of the other
	let extra_src = vec![format!("{}[dupA]", vg.path.to_str().unwrap()), format!("{}[dupB]", vg.path.to_str().unwrap()), format!("{}[a]", vg.path.to_str().unwrap()), format!("{}[ab]", vg.path.to_str().unwrap())];
	let s = |p: &PathBuf| p.to_str().unwrap().to_string();
	struct Inst {
		srv: Server,
		name: &'static str,
		/// static sources in order: (kind, url prefix, which content set: 1 = main files, 2 = second folder)
		statics: Vec<(&'static str, &'static str, u8)>,
		api: bool,
	}
	let mut insts = vec![];
	{
		let mut extra = extra_src.clone();
		extra.extend(["-s".to_string(), s(&folder), "-s".to_string(), s(&folder2)]);
		insts.push(Inst { srv: start_server_x(bin, &tile_defs, false, false, false, None, &extra, dir), name: "best:folder,folder2", statics: vec![("folder", "/", 1), ("folder", "/", 2)], api: true });
	}
	{
		let extra = vec!["--disable-api".to_string(), "-s".to_string(), format!("[/assets]{}", s(&tarp)), "-s".to_string(), s(&folder2)];
		insts.push(Inst { srv: start_server_x(bin, &tile_defs, true, false, false, None, &extra, dir), name: "fast,no-api:[/assets]tar,folder2", statics: vec![("tar", "/assets/", 1), ("folder", "/", 2)], api: false });
	}
	{
		let extra = vec!["-s".to_string(), s(&folder2), "-s".to_string(), s(&tarp)];
		insts.push(Inst { srv: start_server_x(bin, &tile_defs, false, false, false, None, &extra, dir), name: "best:folder2,tar", statics: vec![("folder", "/", 2), ("tar", "/", 1)], api: true });
	}
	if args.thorough() {
		let extra = vec!["-s".to_string(), format!("[/x/y]{}", s(&folder)), "-s".to_string(), s(&tarp)];
		insts.push(Inst { srv: start_server_x(bin, &tile_defs, true, false, false, None, &extra, dir), name: "fast:[/x/y]folder,tar", statics: vec![("folder", "/x/y/", 1), ("tar", "/", 1)], api: true });
	}
	let headers = header_variants();
	let second: Vec<(&str, Vec<u8>, &str)> = vec![("a.txt", b"a.txt of the SECOND folder".to_vec(), "text/plain; charset=utf-8"), ("z.txt", b"z.txt exists only in the second folder".to_vec(), "text/plain; charset=utf-8")];
	let mut tilejson_seen: BTreeMap<String, Vec<u8>> = BTreeMap::new();
	for inst in &insts {
		let port = inst.srv.port;
		let mode = inst.name;
		for (hi, (acc, listed)) in headers.iter().enumerate() {
			let two_lines = acc.as_deref().is_some_and(|a| a.contains('\n'));
			// --- static files: what the FIRST static source that knows the path holds
			let mut paths: Vec<String> = vec![];
			for (_, prefix, _) in &inst.statics {
				for f in &files {
					paths.push(format!("{prefix}{}", f.name));
				}
				for n in ["a.txt", "z.txt", "nope.txt", "sub/", "sub", ""] {
					paths.push(format!("{prefix}{n}"));
				}
			}
			paths.sort();
			paths.dedup();
			for path in paths {
				if !args.thorough() && hi % 3 != 0 && !(path.ends_with("g.txt") || path.ends_with("e.txt") || path.ends_with("i.png") || path.ends_with("h.css")) {
					continue; // quick tier: every third header for the plain files, all headers for the precompressed ones
				}
				// expected: first source (in order) that has the path
				let mut expect: Option<(Vec<u8>, &str, &str, [bool; 3])> = None;
				for (kind, prefix, set) in &inst.statics {
					let Some(rel) = path.strip_prefix(prefix) else { continue };
					let rel_idx = if rel.is_empty() || rel.ends_with('/') { format!("{rel}index.html") } else { rel.to_string() };
					if *set == 1 {
						// the tar source also answers `sub` (alias of sub/index.html); the folder source resolves a directory to index.html
						let hit = files.iter().find(|f| f.name == rel_idx || (format!("{rel}/index.html") == f.name));
						if let Some(f) = hit {
							expect = Some((f.content.clone(), f.mime, kind, [f.un, f.gz, f.br]));
							break;
						}
					} else if let Some((_, c, m)) = second.iter().find(|(n, _, _)| *n == rel_idx) {
						expect = Some((c.clone(), m, kind, [true, false, false]));
						break;
					}
				}
				let model_line = match (&expect, two_lines) {
					(Some((_, mime, kind, bits)), false) => Some(format!("C05 static {} {} {}{}{} {} {}", inst.srv.fast as u8, kind, bits[0] as u8, bits[1] as u8, bits[2] as u8, hex(mime.as_bytes()), hex_or_tilde(acc))),
					_ => None,
				};
				let e = expect.as_ref().map(|(c, m, _, _)| (c.as_slice(), *m));
				route_request(out, port, mode, "static", &path, acc, listed, e, model_line);
			}
			// --- service routes
			route_request(out, port, mode, "status", "/status", acc, listed, Some((b"ready!", "text/plain; charset=utf-8")), None);
			if inst.api {
				let ids: Vec<String> = inst.srv.defs.iter().map(|d| format!("\"{}\"", d.id)).chain(["dupA", "dupB", "a", "ab"].iter().filter(|_| mode.starts_with("best:folder,")).map(|x| format!("\"{x}\""))).collect();
				let body = format!("[{}]", ids.join(","));
				route_request(out, port, mode, "api_index", "/tiles/index.json", acc, listed, Some((body.as_bytes(), "application/json")), None);
			} else {
				route_request(out, port, mode, "api_index_disabled", "/tiles/index.json", acc, listed, None, None);
			}
			// --- tilejson / meta routes of a tile source: same document whatever the header and the mode
			for d in &inst.srv.defs {
				for name in ["tiles.json", "meta.json"] {
					let target = format!("/tiles/{}/{name}", d.id);
					let r = http_get(port, &target, acc.as_deref());
					out.eval(&format!("route {mode} {target} {acc:?}"), true);
					out.count("route_tilejson");
					let sig = json!({"kind":"route_tilejson","mode":mode});
					match r {
						None => out.oracle(false, "C05 route: no complete HTTP response", sig, json!({"case": format!("C05 route {mode} {}", hex(target.as_bytes())), "request": target})),
						Some(r) => {
							let ce = r.header("content-encoding").map(|s| s.to_ascii_lowercase());
							let dec = match ce.as_deref() {
								None => Some(r.body.clone()),
								Some("gzip") => gz_dec(&r.body),
								Some("br") => br_dec(&r.body),
								_ => None,
							};
							let listed_ok = ce.as_ref().is_none_or(|t| listed.iter().any(|l| l == t));
							let first = tilejson_seen.entry(d.id.clone()).or_insert_with(|| dec.clone().unwrap_or_default()).clone();
							let ok = r.status == 200 && r.header("content-type") == Some("application/json") && listed_ok && dec.as_ref() == Some(&first) && serde_json::from_slice::<serde_json::Value>(&first).is_ok();
							out.oracle(ok, "C05 route: tilejson document", sig, json!({"case": format!("C05 route {mode} {} {}", hex(target.as_bytes()), hex_or_tilde(acc)), "request": target, "accept_encoding": acc, "status": r.status, "content_encoding": ce}));
						}
					}
				}
			}
			// --- the same container under several ids (also ids that are prefixes of each other): identical tiles
			if mode.starts_with("best:folder,") {
				for id in ["dupA", "dupB", "a", "ab", "v_gzip_pbf"] {
					let target = format!("/tiles/{id}/3/7/0");
					let p = payload("pbf", (3, 7, 0));
					route_request(out, port, mode, "same_source_twice", &target, acc, listed, Some((&p, "application/x-protobuf")), None);
				}
			}
		}
	}
	// colliding ids: the server must refuse to start rather than shadow one source by the other
	{
		let mut cmd = Command::new(bin);
		cmd.arg("serve").arg("-i").arg("127.0.0.1").arg("-p").arg(free_port().to_string()).arg("--auto-shutdown").arg("1500");
		cmd.arg(format!("{}[same]", vg.path.to_str().unwrap())).arg(format!("{}[same]", pick("p_raw_png").path.to_str().unwrap()));
		cmd.stdin(Stdio::null()).stdout(Stdio::null()).stderr(Stdio::null());
		let st = cmd.status();
		let refused = st.as_ref().map(|s| !s.success()).unwrap_or(false);
		out.oracle(refused, "C05 two tile sources with the same id are accepted", json!({"kind":"colliding_ids"}), json!({"case": "C05 collide", "exit": st.ok().and_then(|s| s.code())}));
		out.eval("collide same id", true);
	}
	for inst in insts.iter_mut() {
		let alive = inst.srv.child.as_mut().is_none_or(|c| matches!(c.try_wait(), Ok(None)));
		out.oracle(alive, "C05 server process died", json!({"kind":"server_died","mode":inst.name}), json!({"case": "-"}));
	}
	out.notes.push(format!("route instances: {}", insts.iter().map(|i| i.name).collect::<Vec<_>>().join(" | ")));
}

/// class 6: many clients at once on one source (per-source async mutex) and across sources
fn concurrent_section(out: &mut Out, srv: &Server) {
	let targets: Vec<(String, Vec<u8>)> = srv
		.defs
		.iter()
		.filter(|d| d.fmt == "pbf" && d.set == "std")
		.take(6)
		.flat_map(|d| TILES.iter().map(|c| (format!("/tiles/{}/{}/{}/{}", d.id, c.0, c.1, c.2), payload("pbf", *c))).collect::<Vec<_>>())
		.collect();
	let port = srv.port;
	let results: Vec<(usize, usize)> = std::thread::scope(|sc| {
		let hs: Vec<_> = (0..8)
			.map(|t| {
				let targets = &targets;
				sc.spawn(move || {
					let (mut ok, mut bad) = (0usize, 0usize);
					for i in 0..40 {
						let (target, want) = &targets[(t * 7 + i * 3) % targets.len()];
						let acc = ["gzip", "br", "identity"][(t + i) % 3];
						let good = http_get(port, target, Some(acc)).is_some_and(|r| {
							let dec = match r.header("content-encoding") {
								None => Some(r.body.clone()),
								Some("gzip") => gz_dec(&r.body),
								Some("br") => br_dec(&r.body),
								_ => None,
							};
							r.status == 200 && dec.as_ref() == Some(want) && r.header("content-encoding").is_none_or(|e| e == acc)
						});
						if good {
							ok += 1
						} else {
							bad += 1
						}
					}
					(ok, bad)
				})
			})
			.collect();
		hs.into_iter().map(|h| h.join().unwrap()).collect()
	});
	let bad: usize = results.iter().map(|r| r.1).sum();
	let total: usize = results.iter().map(|r| r.0 + r.1).sum();
	out.oracle(bad == 0, "C05 concurrent requests: wrong or missing responses", json!({"kind":"concurrent"}), json!({"case": "C05 concurrent", "bad": bad, "total": total}));
	out.count_n("concurrent_requests", total as u64);
	for i in 0..total {
		out.eval(&format!("concurrent {i}"), true);
	}
}

// ---------------------------------------------------------------------------------------------
// sources whose ANNOUNCED pyramid is not what their lookups deliver (seeded regression C05-12).  No reader reachable
// through the command line under-announces (versatiles / pmtiles / mbtiles / tar / directory derive the pyramid from the
// stored tiles, the VPL operations clip their lookups to what they announce), so the real `TileServer` is run inside
// this process (hook: feature `verif` of the versatiles crate) over in-memory readers with a narrowed / widened pyramid.
// "200 exactly when the source holds the tile" is about lookups, the pyramid is only metadata.
// ---------------------------------------------------------------------------------------------
const ANN_TILES: [(u8, u32, u32); 7] = [(0, 0, 0), (1, 1, 0), (2, 1, 2), (3, 7, 0), (5, 17, 9), (9, 300, 301), (12, 4000, 77)];

fn inprocess_section(out: &mut Out, rt: &tokio::runtime::Runtime, dir: &PathBuf) {
	use versatiles::tools::server::TileServer;
	use versatiles_core::types::{TileBBox, TileBBoxPyramid};
	// (id, announced pyramid)
	let mut narrow = TileBBoxPyramid::new_empty();
	narrow.include_bbox(&TileBBox::new(1, 0, 0, 1, 1).unwrap());
	narrow.include_bbox(&TileBBox::new(2, 0, 0, 3, 3).unwrap());
	let mut low_only = TileBBoxPyramid::new_empty();
	low_only.include_bbox(&TileBBox::new(0, 0, 0, 0, 0).unwrap());
	let mut corner = TileBBoxPyramid::new_empty();
	corner.include_bbox(&TileBBox::new(12, 0, 0, 5, 5).unwrap()); // right zoom range top, wrong boxes, lower levels missing
	let variants: Vec<(&'static str, TileBBoxPyramid)> = vec![("ann_narrow", narrow), ("ann_low", low_only), ("ann_corner", corner), ("ann_empty", TileBBoxPyramid::new_empty()), ("ann_wide", TileBBoxPyramid::new_full(14))];
	for fast in [false, true] {
		let port = free_port();
		let mut server = TileServer::new("127.0.0.1", port, !fast, true);
		let mut defs: Vec<SourceDef> = vec![];
		for (i, (id, pyramid)) in variants.iter().enumerate() {
			let comp = COMPS[i % 3];
			let tiles: Vec<((u8, u32, u32), Vec<u8>)> = ANN_TILES.iter().map(|c| (*c, indep_enc(comp, &payload("pbf", *c)))).collect();
			let tj = TileJSON::try_from("{\"tilejson\":\"3.0.0\",\"name\":\"ann\"}").unwrap();
			let mut reader = MemReader::new(TileFormat::PBF, comp, tj, &tiles);
			reader.params.bbox_pyramid = pyramid.clone();
			if let Err(e) = server.add_tile_source(id, reader.boxed()) {
				out.oracle(false, "C05 in-process server: cannot add source", json!({"kind":"inprocess_setup"}), json!({"case": "-", "error": format!("{e:#}")}));
			}
			defs.push(SourceDef { id: id.to_string(), container: "memory", comp, actual: comp, fmt: "pbf", path: dir.join("-"), set: "ann", indep: false });
		}
		let started = rt.block_on(server.start());
		if started.is_err() {
			out.oracle(false, "C05 in-process server: cannot start", json!({"kind":"inprocess_setup"}), json!({"case": "-"}));
			continue;
		}
		// wait until it answers
		let t0 = Instant::now();
		while t0.elapsed() < Duration::from_secs(10) && !http_get(port, "/status", None).is_some_and(|r| r.status == 200) {
			std::thread::sleep(Duration::from_millis(30));
		}
		let srv = Server { child: None, port, fast, flip: false, swap: false, ovr: None, defs: defs.clone() };
		let cx = Ctx { servers: &[], defs: &defs };
		let headers: Vec<(Option<String>, Vec<String>)> = vec![(None, vec![]), (Some("gzip".into()), vec!["gzip".into()]), (Some("br, gzip".into()), vec!["br".into(), "gzip".into()])];
		for d in &defs {
			for (ci, c) in ANN_TILES.iter().enumerate() {
				let (acc, listed) = &headers[ci % headers.len()];
				let rest = format!("{}/{}/{}", c.0, c.1, c.2);
				do_request(out, &cx, &srv, d, &rest, acc, Some((Expect::Coord(c.0 as u64, c.1 as u64, c.2 as u64), listed.clone())), "announced_vs_held");
			}
			// announced but not held, beyond everything, and a neighbour of a held tile
			for (z, x, y) in [(1u64, 0u64, 0u64), (2, 3, 3), (12, 1, 1), (13, 0, 0), (14, 5, 5), (20, 7, 7), (9, 300, 300)] {
				do_request(out, &cx, &srv, d, &format!("{z}/{x}/{y}"), &None, Some((Expect::Coord(z, x, y), vec![])), "announced_vs_held");
			}
		}
		rt.block_on(server.stop());
	}
	out.notes.push("sources whose announced pyramid differs from what they hold are served by a TileServer inside the harness process (hook versatiles/verif); no command-line reachable reader under-announces".into());
}

fn unhex_str(s: &str) -> String {
	String::from_utf8(unhex(s)).unwrap()
}

pub fn run(args: &Args) {
	if std::env::var("VTH_LOUD").is_err() {
		quiet_panics();
	}
	let mut out = Out::new(&args.out);
	out.rule = "raw HTTP/1.1 GET /tiles/<id>/<rest> against the freshly built `versatiles serve` in modes best / --fast / --flip-y / --swap-xy / both, and --override-input-compression {uncompressed,gzip,brotli} alone and combined with --flip-y / --swap-xy, over versatiles, pmtiles (3 stored compressions × pbf/png), tar, directory, mbtiles (pbf.gz, png), the other media types, sources holding tiles at zoom 30 and 31 (origin and far corner of the level), sources damaged after the server opened them (deleted / replaced tile files of a directory, truncated tar and versatiles files: reader errors at lookup time must give 404), LARGE incompressible tiles (stored sizes just below/above 64 KiB and 1 MiB, 1.2 MiB, 2 MiB; uncompressed, gzip, brotli) requested with absent / identity / gzip / br / 'deflate, zstd' / 'gzip, br' in best and --fast mode, and MISLABELLED sources (stored bytes encoded differently from what the container declares, served with the matching override); <rest> classes: stored, in-range absent, out-of-range x/y (2^z, 2^z+1, 2^32-1 …), deep zoom, z>31 / overflowing numbers, non-numeric, non-canonical (+, leading zeros, empty segments, extra parts), short / empty-segment-only paths; Accept-Encoding absent / empty / * / ordered subsets of {gzip,br,deflate,identity,zstd} in lower, upper, mixed case with positive weights; plus the whole decision table of optimize_compression (3 inputs × 8 allowed sets × 3 goals × valid/empty/truncated blob); non-trivial = a 200 response, an out-of-range or short path, or an optimize case with a valid blob and 'Uncompressed' allowed; distinct by case text".into();
	let rt = runtime();
	let dir = args.out.join("c05");
	std::fs::create_dir_all(&dir).unwrap();
	let defs = source_defs(&dir, args.thorough());
	write_sources(&defs, &rt);
	let bin = std::env::var("VTH_BIN").unwrap_or_else(|_| "/verif/harness/target-repo/debug/versatiles".into());
	if !std::path::Path::new(&bin).exists() {
		eprintln!("infrastructure error: {bin} does not exist");
		std::process::exit(3);
	}
	// server instances.  Correctly labelled sources: best / --fast serve all of them, the transforming instances a subset.
	let good: Vec<SourceDef> = defs.iter().filter(|d| !d.mislabelled() && d.set == "std").cloned().collect();
	let bigs: Vec<SourceDef> = defs.iter().filter(|d| matches!(d.set, "big" | "z31lo" | "z31hi" | "tiny")).cloned().collect();
	// sources that lie about their compression, served WITHOUT the override: the stored bytes are undecodable for the server
	let corrupt: Vec<SourceDef> = defs.iter().filter(|d| d.set == "std" && d.mislabelled() && d.actual == TileCompression::Uncompressed && d.comp == TileCompression::Gzip && d.fmt == "pbf").cloned().collect(); // declared gzip only: gzip has a checksum, whereas the brotli decoder accepts many arbitrary byte strings
	let faulty: Vec<SourceDef> = defs.iter().filter(|d| d.set.starts_with("fault_")).cloned().collect();
	let sub: Vec<SourceDef> = good.iter().filter(|d| (d.fmt == "pbf" || d.fmt == "png") && (d.container == "mbtiles" || d.comp == TileCompression::Gzip)).cloned().collect();
	let mut servers = vec![
		start_server(&bin, &good, false, false, false, None, &dir),
		start_server(&bin, &good, true, false, false, None, &dir),
		start_server(&bin, &sub, false, true, false, None, &dir),
		start_server(&bin, &sub, false, false, true, None, &dir),
		start_server(&bin, &sub, true, true, true, None, &dir),
	];
	// `--override-input-compression X` alone and combined with --flip-y / --swap-xy: every source whose bytes really
	// are X-encoded, whatever its container declares (the mislabelled ones plus the correctly labelled pbf ones)
	for x in COMPS {
		let pool: Vec<SourceDef> = defs.iter().filter(|d| d.set == "std" && d.actual == x && (d.mislabelled() || (d.fmt == "pbf" && d.container != "mbtiles"))).cloned().collect();
		servers.push(start_server(&bin, &pool, false, false, false, Some(x), &dir));
		servers.push(start_server(&bin, &pool, false, true, false, Some(x), &dir));
		servers.push(start_server(&bin, &pool, true, false, true, Some(x), &dir));
		if args.thorough() {
			servers.push(start_server(&bin, &pool, true, true, true, Some(x), &dir));
			servers.push(start_server(&bin, &pool, true, false, false, Some(x), &dir));
		}
	}
	// two instances (best, --fast) that serve only the large tiles; kept at the END of the list, the general request
	// loops below run over `servers[..n_general]`
	let n_general = servers.len();
	servers.push(start_server(&bin, &bigs, false, false, false, None, &dir));
	servers.push(start_server(&bin, &bigs, true, false, false, None, &dir));
	servers.push(start_server(&bin, &corrupt, false, false, false, None, &dir));
	servers.push(start_server(&bin, &corrupt, true, false, false, None, &dir));
	// one instance over sources that are damaged now that it has opened (indexed) them: the lookups fail inside the reader
	servers.push(start_server(&bin, &faulty, false, false, false, None, &dir));
	for d in &faulty {
		match d.set {
			"fault_dir" => {
				std::fs::remove_file(d.path.join("1/1/1.pbf.gz")).expect("fault_dir: tile file to delete");
				std::fs::remove_file(d.path.join("2/1/2.pbf.gz")).expect("fault_dir: tile file to replace");
				std::fs::create_dir_all(d.path.join("2/1/2.pbf.gz")).unwrap();
			}
			"fault_tar" => std::fs::OpenOptions::new().write(true).open(&d.path).unwrap().set_len(700).unwrap(),
			_ => std::fs::OpenOptions::new().write(true).open(&d.path).unwrap().set_len(66).unwrap(),
		}
	}
	let cx = Ctx { servers: &servers, defs: &defs };

	if let Some(p) = &args.replay {
		let mut routes_replayed = false;
		let mut inprocess_replayed = false;
		for line in std::fs::read_to_string(p).unwrap().lines() {
			let t: Vec<&str> = line.trim().split(' ').collect();
			match t.as_slice() {
				["C05", "static", ..] | ["C05", "route", ..] => {
					// served by the route instances: run that whole (small) section once
					if !std::mem::replace(&mut routes_replayed, true) {
						routes_section(&mut out, args, &bin, &dir, &defs);
					}
				}
				["C05", "req2", ..] if t.len() == 11 && t[8] == coords_str(&ANN_TILES) => {
					// sources with a wrong announced pyramid live in the in-process instances: run that section once
					if !std::mem::replace(&mut inprocess_replayed, true) {
						inprocess_section(&mut out, &rt, &dir);
					}
				}
				["C05", "req", ..] | ["C05", "req2", ..] | ["C05", "req3", ..] => {
					// old form: `req fast flip comp fmt tiles accept rest`
					let (fast, flip, swap, comp, ovr, fmt, accept, rest) = if t[1] == "req" && t.len() == 9 {
						(t[2], t[3], "0", t[4], "-", t[5], t[7], t[8])
					} else if (t[1] == "req2" && t.len() == 11) || (t[1] == "req3" && t.len() == 12) {
						(t[2], t[3], t[4], t[5], t[6], t[7], t[9], t[10])
					} else {
						continue;
					};
					let (fast, flip, swap) = (fast == "1", flip == "1", swap == "1");
					let ovr = if ovr == "-" { None } else { parse_comp(ovr) };
					let accept = if accept == "~" { None } else { Some(unhex_str(accept)) };
					let rest = unhex_str(rest);
					// the container kind is not part of the model line: replay on every matching instance and source
					for srv in servers.iter().filter(|s| s.fast == fast && s.flip == flip && s.swap == swap && s.ovr == ovr) {
						for d in srv.defs.iter().filter(|d| d.comp == parse_comp(comp).unwrap() && d.fmt == fmt) {
							do_request(&mut out, &cx, srv, d, &rest, &accept, replay_expect(&rest, &accept), "replay");
						}
					}
				}
				["C05", "reader", id, flip, coord] => {
					let c: Vec<u64> = coord.split('/').map(|x| x.parse().unwrap()).collect();
					if let Some(d) = defs.iter().find(|d| d.id == *id) {
						reader_case(&mut out, d, *flip == "1", (c[0] as u8, c[1] as u32, c[2] as u32), &rt);
					}
				}
				["C05", "opt", c, bits, goal, kind, pl] => {
					let b: Vec<bool> = bits.chars().map(|x| x == '1').collect();
					opt_case(&mut out, parse_comp(c).unwrap(), [b[0], b[1], b[2]], goal, kind, &unhex(pl));
				}
				_ => {}
			}
		}
		out.finish();
		return;
	}
	let mut rng = Rng::new(args.seed);
	// A. optimize_compression, exhaustively
	let pls: Vec<Vec<u8>> = vec![vec![0x42], rng.bytes(40), b"aaaaaaaaaaaaaaaaaaaaaaaaaaaaaaaaaaaaaaaaaaaaaaaaaaaaaaaaaaaaaaaa".to_vec()];
	for c in COMPS {
		for m in 0..8u8 {
			for goal in ["fast", "best", "inc"] {
				for kind in ["enc", "nil", "cut"] {
					for pl in &pls {
						opt_case(&mut out, c, [m & 1 != 0, m & 2 != 0, m & 4 != 0], goal, kind, pl);
					}
				}
			}
		}
	}
	// B. reader-level out-of-range lookups
	reader_out_of_range(&mut out, &defs, &rt);
	// C. systematic requests: every source × mode × a fixed list of paths × a fixed list of headers
	let fixed_paths: Vec<(&str, Expect, &str)> = vec![
		("1/1/1", Expect::Coord(1, 1, 1), "stored"),
		("3/7/0.pbf", Expect::Coord(3, 7, 0), "stored"),
		("2/0/0", Expect::Coord(2, 0, 0), "in_range"),
		("1/0/2", Expect::Coord(1, 0, 2), "out_of_range"),
		("1/2/0", Expect::Coord(1, 2, 0), "out_of_range"),
		("3/0/4294967295", Expect::Coord(3, 0, 4294967295), "out_of_range"),
		("31/0/4294967295", Expect::Coord(31, 0, 4294967295), "deep_zoom"),
		("32/0/0", Expect::Unparsable, "unrepresentable"),
		("a/b/c", Expect::Unparsable, "non_numeric"),
		("/", Expect::Complete, "short"),
		("//", Expect::Complete, "short"),
		("1/0", Expect::Complete, "short"),
		("tiles.json", Expect::Complete, "short"),
	];
	let fixed_accept: Vec<(Option<String>, Vec<String>)> = vec![
		(None, vec![]),
		(Some("gzip".into()), vec!["gzip".into()]),
		(Some("br".into()), vec!["br".into()]),
		(Some("gzip, deflate, br".into()), vec!["gzip".into(), "deflate".into(), "br".into()]),
		(Some("identity".into()), vec!["identity".into()]),
	];
	for srv in &servers[..n_general] {
		for d in srv.defs.iter() {
			for (i, (rest, exp, class)) in fixed_paths.iter().enumerate() {
				for (j, (acc, listed)) in fixed_accept.iter().enumerate() {
					// full cross product only for stored tiles; others with two header variants
					if *class != "stored" && j != (i % fixed_accept.len()) && j != 3 {
						continue;
					}
					do_request(&mut out, &cx, srv, d, rest, acc, Some((exp.clone(), listed.clone())), class);
				}
			}
		}
	}
	// D. sampled requests
	let n = args.n(5000, 60000);
	for _ in 0..n {
		let srv = &servers[match rng.below(10) {
			0..=2 => 0,
			3..=5 => 1,
			_ => rng.range(2, n_general as u64 - 1) as usize,
		}];
		let d = rng.pick(&srv.defs);
		let (rest, exp, class) = gen_rest(&mut rng);
		let (acc, listed, aclass) = gen_accept(&mut rng);
		out.count(&format!("accept_{aclass}"));
		do_request(&mut out, &cx, srv, d, &rest, &acc, Some((exp, listed)), class);
	}
	// E. requests outside the model's alphabet (oracle only)
	odd_requests(&mut out, &servers[..n_general]);
	// F. large tiles: every size class × every header class × both modes.  The decision must not depend on the size.
	{
		let headers: Vec<(Option<String>, Vec<String>)> = vec![
			(None, vec![]),
			(Some("identity".into()), vec!["identity".into()]),
			(Some("gzip".into()), vec!["gzip".into()]),
			(Some("br".into()), vec!["br".into()]),
			(Some("deflate, zstd".into()), vec!["deflate".into(), "zstd".into()]),
			(Some("gzip, br".into()), vec!["gzip".into(), "br".into()]),
		];
		for srv in &servers[n_general..] {
			for d in srv.defs.iter() {
				for (ti, c) in d.written().iter().enumerate() {
					for (hi, (acc, listed)) in headers.iter().enumerate() {
						// best mode + `br` offered + not stored as brotli ⇒ the server brotli-compresses (quality 10) the whole
						// blob: seconds for the > 1 MiB classes.  Quick tier: do that once per source, thorough: always.
						let server_compresses_brotli = d.big() && !srv.fast && listed.iter().any(|l| l == "br") && d.comp != TileCompression::Brotli;
						if server_compresses_brotli && ti >= 2 && !(args.thorough() || (ti == 3 && hi == 3 && d.container == "versatiles" && d.comp == TileCompression::Gzip)) {
							continue;
						}
						if !d.big() && hi % 2 == 1 && !args.thorough() {
							continue;
						}
						let rest = format!("{}/{}/{}", c.0, c.1, c.2);
						let class = match d.set {
							"big" => "big_tile",
							"z31lo" | "z31hi" => "zoom_30_31",
							"tiny" => "tiny_tile",
							"std" => "undecodable_stored",
							_ => "reader_fault",
						};
						do_request(&mut out, &cx, srv, d, &rest, acc, Some((Expect::Coord(c.0 as u64, c.1 as u64, c.2 as u64), listed.clone())), class);
						if d.big() {
							out.count(&format!("big_tile_{}", BIG_SIZES[ti]));
						}
					}
				}
				if d.set.starts_with("z31") {
					// neighbours of the stored zoom-31 tiles, the level border, and zoom levels that do not exist
					let extra: Vec<(String, Expect)> = vec![
						("31/7/7".into(), Expect::Coord(31, 7, 7)),
						(format!("31/{}/{}", M31 - 5, M31 - 5), Expect::Coord(31, (M31 - 5) as u64, (M31 - 5) as u64)),
						("31/2147483648/0".into(), Expect::Coord(31, 2147483648, 0)),
						("31/0/2147483648".into(), Expect::Coord(31, 0, 2147483648)),
						(format!("31/{}/{}", u32::MAX, u32::MAX), Expect::Coord(31, u32::MAX as u64, u32::MAX as u64)),
						(format!("30/{}/{}", M31, M31), Expect::Coord(30, M31 as u64, M31 as u64)),
						("32/0/0".into(), Expect::Unparsable),
						("255/0/0".into(), Expect::Unparsable),
						(format!("31/{}/{}.pbf", d.written()[2].1, d.written()[2].2), Expect::Coord(31, d.written()[2].1 as u64, d.written()[2].2 as u64)),
					];
					for (rest, exp) in extra {
						do_request(&mut out, &cx, srv, d, &rest, &Some("gzip".to_string()), Some((exp, vec!["gzip".into()])), "zoom_30_31");
					}
				}
			}
		}
	}
	// G. every route × every header variant, static sources, option interplay; H. concurrency
	routes_section(&mut out, args, &bin, &dir, &defs);
	concurrent_section(&mut out, &servers[0]);
	// I. announced pyramid ≠ held tiles (in-process TileServer)
	inprocess_section(&mut out, &rt, &dir);
	for n in [
		"checklist 1 (thresholds): z 30/31/32/255/256, x/y 2^z-1, 2^z, 2^32-1, 2^32; 2/3/4+ path parts; stored sizes around 64 KiB and 1 MiB, 1.2 and 2 MiB; 0/1-byte tiles; the four incompressible MIME strings (png/jpg/webp/avif vs svg and 5 others)",
		"checklist 2 (faults): directory tile deleted / replaced by a directory, tar and versatiles truncated after start-up (404), stored bytes undecodable under the declared compression (500 or stored bytes; was a dropped connection, fixed e9b017ef)",
		"checklist 3 (payloads): 0 bytes, 1 byte, payload that is a gzip stream / starts with the gzip magic, > 1 MiB incompressible, undecodable, mislabelled (decodable under another codec)",
		"checklist 4 (options): --fast, --flip-y, --swap-xy, --override-input-compression (alone and pairwise), --disable-api, one/two static sources in both orders, url prefixes for static sources, the same container under several ids, ids that are prefixes of each other, colliding ids (must refuse to start)",
		"checklist 5 (state): every route request is sent twice and must be answered identically; thousands of repeated lookups on long-lived instances (warm reader caches); same source mounted twice",
		"checklist 6 (order): 8 client threads x 40 requests on one instance (per-source async mutex)",
		"checklist 7 (requests): 18 header variants (absent, empty, *, single, lists, q-values incl. q=0, upper/mixed case, identity, unknown tokens containing gzip/br, repeated header line) on tiles, tiles.json, meta.json, static folder, static tar, /status, /tiles/index.json; path forms in the sampled tile requests",
		"checklist 8 (coordinates): zoom 0, 30, 31 origin and far corner, level borders with flip/swap",
		"checklist 9 (foreign encoders): tiles encoded by flate2/brotli directly; versatiles and pmtiles sources written by indep_formats with shuffled/shared/leaf layouts",
		"checklist 10 (two paths): best vs --fast (both must decode to the stored payload), precompressed .br/.gz vs plain vs on-the-fly for static files, tiles.json identical across modes and headers",
		"checklist 11 (fallbacks): index.html for directory URLs (folder and tar alias), .br/.gz-only files requested by clients that do not accept them, second static source when the first does not know the path, static fallback for /tiles/<id>/ without a path",
	] {
		out.notes.push(n.into());
	}
	// the servers must have survived everything
	let mut servers = servers;
	for s in servers.iter_mut() {
		let alive = s.child.as_mut().is_none_or(|c| matches!(c.try_wait(), Ok(None)));
		out.oracle(alive, "C05 server process died", json!({"kind":"server_died","mode":s.mode()}), json!({"case": "-", "port": s.port}));
	}
	out.notes.push(format!("{} server instances: {}", servers.len(), servers.iter().map(|s| format!("{} ({} sources)", s.mode(), s.defs.len())).collect::<Vec<_>>().join(", ")));
	drop(servers);
	let _ = std::fs::remove_dir_all(&dir);
	out.finish();
}
