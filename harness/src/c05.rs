//! C05 – the HTTP tile endpoint serves exactly the stored tile under content negotiation.
//!
//! Starts the freshly built `versatiles serve` (env VTH_BIN) on free ports in three modes (best, `--fast`,
//! `--flip-y`) over versatiles / mbtiles / pmtiles containers written under `args.out`, sends raw HTTP/1.1
//! requests and compares
//!   * with the Lean model (`VtModel/Http.lean`): `C05 req …` → status / content-type / content-encoding,
//!   * with the stored tile (direct oracle): status 200 ⇔ the container holds the tile, body decoded per
//!     Content-Encoding = stored payload, Content-Type = media type of the format, Content-Encoding absent or
//!     listed by the client; 404 / 400 otherwise as a COMPLETE response (a dropped connection is a failure).
//! `C05 opt …` drives the real `optimize_compression` through its whole decision table.
use crate::c04::{br_dec, cname, gz_dec, indep_dec, indep_enc, parse_comp, runtime, MemReader, COMPS};
use crate::common::*;
use enumset::EnumSet;
use serde_json::json;
use std::collections::BTreeMap;
use std::io::{Read, Write};
use std::net::{TcpListener, TcpStream};
use std::path::PathBuf;
use std::process::{Child, Command, Stdio};
use std::time::{Duration, Instant};
use versatiles_container::{write_to_filename, MBTilesReader, TilesConvertReader, TilesConverterParameters, MOCK_BYTES_PBF, MOCK_BYTES_PNG};
use versatiles_core::{
	tilejson::TileJSON,
	types::{Blob, TileCompression, TileCoord3, TileFormat, TilesReaderTrait},
	utils::{compress, optimize_compression, TargetCompression},
};

/// coordinates every container holds (contiguous zoom levels: MBTilesReader cannot open files with an empty level
/// between min and max zoom, DESIGN §8 F10 – not this property's subject)
const TILES: [(u8, u32, u32); 8] = [(0, 0, 0), (1, 0, 0), (1, 1, 1), (2, 1, 2), (2, 3, 3), (3, 7, 0), (3, 0, 7), (3, 4, 5)];

fn tiles_str() -> String {
	TILES.iter().map(|(z, x, y)| format!("{z}/{x}/{y}")).collect::<Vec<_>>().join(",")
}

fn parse_format(s: &str) -> TileFormat {
	TileFormat::parse_str(s).unwrap()
}

/// payload stored at a coordinate (deterministic, distinct per coordinate, compressible enough to make recompression visible)
fn payload(fmt: &str, c: (u8, u32, u32)) -> Vec<u8> {
	let mut v: Vec<u8> = if fmt == "png" { MOCK_BYTES_PNG.to_vec() } else { MOCK_BYTES_PBF.to_vec() };
	let stamp = format!("|tile {}/{}/{} of format {fmt}|", c.0, c.1, c.2);
	for _ in 0..6 {
		v.extend_from_slice(stamp.as_bytes());
	}
	v
}

#[derive(Clone, Debug)]
struct SourceDef {
	id: String,
	container: &'static str,
	comp: TileCompression,
	fmt: &'static str,
	path: PathBuf,
}

fn source_defs(dir: &PathBuf, thorough: bool) -> Vec<SourceDef> {
	let mut v = vec![];
	for container in ["versatiles", "pmtiles"] {
		for comp in COMPS {
			for fmt in ["pbf", "png"] {
				v.push((container, comp, fmt));
			}
		}
	}
	v.push(("mbtiles", TileCompression::Gzip, "pbf"));
	v.push(("mbtiles", TileCompression::Uncompressed, "png"));
	// the other media types (incompressible rule is keyed by MIME)
	for fmt in ["jpg", "webp", "avif", "svg", "json", "geojson", "topojson", "bin"] {
		v.push(("versatiles", TileCompression::Uncompressed, fmt));
		if thorough || fmt == "avif" || fmt == "svg" {
			v.push(("versatiles", TileCompression::Gzip, fmt));
			v.push(("versatiles", TileCompression::Brotli, fmt));
		}
	}
	v.into_iter()
		.map(|(container, comp, fmt)| {
			let id = format!("{}_{}_{}", &container[..1], cname(comp), fmt);
			SourceDef { path: dir.join(format!("{id}.{container}")), id, container, comp, fmt }
		})
		.collect()
}

fn write_sources(defs: &[SourceDef], rt: &tokio::runtime::Runtime) {
	for d in defs {
		let tiles: Vec<((u8, u32, u32), Vec<u8>)> = TILES.iter().map(|c| (*c, indep_enc(d.comp, &payload(d.fmt, *c)))).collect();
		let tj = TileJSON::try_from("{\"tilejson\":\"3.0.0\",\"name\":\"c05\"}").unwrap();
		let mut reader = MemReader::new(parse_format(d.fmt), d.comp, tj, &tiles);
		rt.block_on(write_to_filename(&mut reader, d.path.to_str().unwrap())).unwrap_or_else(|e| panic!("cannot write {:?}: {e:#}", d.path));
	}
}

// ---------------------------------------------------------------------------------------------
// server processes
// ---------------------------------------------------------------------------------------------
struct Server {
	child: Child,
	port: u16,
	fast: bool,
	flip: bool,
}
impl Drop for Server {
	fn drop(&mut self) {
		let _ = self.child.kill();
		let _ = self.child.wait();
	}
}

fn free_port() -> u16 {
	let l = TcpListener::bind("127.0.0.1:0").unwrap();
	l.local_addr().unwrap().port()
}

fn start_server(bin: &str, defs: &[SourceDef], fast: bool, flip: bool, logdir: &PathBuf) -> Server {
	for attempt in 0..5 {
		let port = free_port();
		let mut cmd = Command::new(bin);
		cmd.arg("serve").arg("-i").arg("127.0.0.1").arg("-p").arg(port.to_string());
		if fast {
			cmd.arg("--fast");
		}
		if flip {
			cmd.arg("--flip-y");
		}
		for d in defs {
			cmd.arg(format!("{}[{}]", d.path.to_str().unwrap(), d.id));
		}
		let log = std::fs::File::create(logdir.join(format!("server_{port}.log"))).unwrap();
		cmd.stdin(Stdio::null()).stdout(Stdio::null()).stderr(Stdio::from(log));
		let child = cmd.spawn().expect("cannot start the versatiles binary (VTH_BIN)");
		let mut srv = Server { child, port, fast, flip };
		let t0 = Instant::now();
		let mut up = false;
		while t0.elapsed() < Duration::from_secs(20) {
			if let Ok(Some(_)) = srv.child.try_wait() {
				break; // exited (port taken, …)
			}
			if let Some(r) = http_get(port, "/status", None) {
				if r.status == 200 {
					up = true;
					break;
				}
			}
			std::thread::sleep(Duration::from_millis(50));
		}
		if up {
			return srv;
		}
		drop(srv);
		eprintln!("server did not come up on port {port} (attempt {attempt}), retrying");
	}
	eprintln!("infrastructure error: cannot start versatiles serve");
	std::process::exit(3);
}

// ---------------------------------------------------------------------------------------------
// raw HTTP
// ---------------------------------------------------------------------------------------------
#[derive(Debug, Clone)]
struct HttpResp {
	status: u16,
	headers: Vec<(String, String)>,
	body: Vec<u8>,
}
impl HttpResp {
	fn header(&self, name: &str) -> Option<&str> {
		self.headers.iter().find(|(k, _)| k == name).map(|(_, v)| v.as_str())
	}
	fn header_count(&self, name: &str) -> usize {
		self.headers.iter().filter(|(k, _)| k == name).count()
	}
}

/// One request on a fresh connection. `None` = no complete HTTP response (dropped connection, truncated body…).
fn http_get(port: u16, target: &str, accept_encoding: Option<&str>) -> Option<HttpResp> {
	let mut s = TcpStream::connect(("127.0.0.1", port)).ok()?;
	s.set_read_timeout(Some(Duration::from_secs(20))).ok()?;
	s.set_write_timeout(Some(Duration::from_secs(20))).ok()?;
	let mut req = format!("GET {target} HTTP/1.1\r\nHost: 127.0.0.1:{port}\r\n");
	if let Some(a) = accept_encoding {
		req.push_str(&format!("Accept-Encoding: {a}\r\n"));
	}
	req.push_str("Connection: close\r\n\r\n");
	s.write_all(req.as_bytes()).ok()?;
	let mut buf = Vec::new();
	let _ = s.read_to_end(&mut buf); // an RST after a partial response still leaves what was received
	parse_http(&buf)
}

fn parse_http(buf: &[u8]) -> Option<HttpResp> {
	let pos = buf.windows(4).position(|w| w == b"\r\n\r\n")?;
	let head = std::str::from_utf8(&buf[..pos]).ok()?;
	let mut lines = head.split("\r\n");
	let status_line = lines.next()?;
	let mut st = status_line.split(' ');
	if !st.next()?.starts_with("HTTP/1.") {
		return None;
	}
	let status: u16 = st.next()?.parse().ok()?;
	let headers: Vec<(String, String)> = lines.filter_map(|l| l.split_once(':').map(|(k, v)| (k.trim().to_ascii_lowercase(), v.trim().to_string()))).collect();
	let raw = &buf[pos + 4..];
	let get = |n: &str| headers.iter().find(|(k, _)| k == n).map(|(_, v)| v.clone());
	let body = if get("transfer-encoding").is_some_and(|v| v.to_ascii_lowercase().contains("chunked")) {
		let mut out = vec![];
		let mut i = 0usize;
		loop {
			let e = raw[i..].windows(2).position(|w| w == b"\r\n")? + i;
			let n = usize::from_str_radix(std::str::from_utf8(&raw[i..e]).ok()?.split(';').next()?.trim(), 16).ok()?;
			i = e + 2;
			if n == 0 {
				break;
			}
			if i + n + 2 > raw.len() {
				return None;
			}
			out.extend_from_slice(&raw[i..i + n]);
			i += n + 2;
		}
		out
	} else if let Some(cl) = get("content-length") {
		let n: usize = cl.parse().ok()?;
		if raw.len() != n {
			return None; // truncated or over-long body
		}
		raw.to_vec()
	} else {
		raw.to_vec()
	};
	Some(HttpResp { status, headers, body })
}

// ---------------------------------------------------------------------------------------------
// request generation
// ---------------------------------------------------------------------------------------------
/// what the property statement says about a request (independent of the model)
#[derive(Clone, Debug, PartialEq)]
enum Expect {
	/// canonical `<z>/<x>/<y>[.ext]`: 200 iff the container holds (z,x,y)
	Coord(u64, u64, u64),
	/// cannot be parsed as a coordinate: 400
	Unparsable,
	/// not a tile request in the property's sense: any complete response with 200/400/404
	Complete,
}

fn gen_rest(rng: &mut Rng) -> (String, Expect, &'static str) {
	let exts = ["", "", ".pbf", ".png", ".xyz", ".", ".5"];
	let ext = *rng.pick(&exts);
	let k = rng.below(100);
	if k < 30 {
		// stored tile
		let (z, x, y) = *rng.pick(&TILES);
		(format!("{z}/{x}/{y}{ext}"), Expect::Coord(z as u64, x as u64, y as u64), "stored")
	} else if k < 42 {
		// in range, mostly absent
		let z = rng.range(0, 4);
		let n = 1u64 << z;
		let (x, y) = (rng.below(n), rng.below(n));
		(format!("{z}/{x}/{y}{ext}"), Expect::Coord(z, x, y), "in_range")
	} else if k < 60 {
		// out of range x / y at a level with or without tiles
		let z = *rng.pick(&[0u64, 1, 2, 3, 3, 5, 17, 30, 31]);
		let n = 1u64 << z;
		let big = [n, n + 1, n + 5, 2 * n, u32::MAX as u64, (u32::MAX - 1) as u64, n.saturating_sub(1)];
		let (x, y) = match rng.below(3) {
			0 => (*rng.pick(&big), rng.below(n)),
			1 => (rng.below(n), *rng.pick(&big)),
			_ => (*rng.pick(&big), *rng.pick(&big)),
		};
		let (x, y) = (x.min(u32::MAX as u64), y.min(u32::MAX as u64));
		(format!("{z}/{x}/{y}{ext}"), Expect::Coord(z, x, y), "out_of_range")
	} else if k < 68 {
		// zoom beyond anything
		let z = *rng.pick(&[4u64, 12, 29, 30, 31]);
		let n = 1u64 << z;
		let (x, y) = (rng.below(n).min(u32::MAX as u64), rng.below(n).min(u32::MAX as u64));
		(format!("{z}/{x}/{y}{ext}"), Expect::Coord(z, x, y), "deep_zoom")
	} else if k < 76 {
		// z that `TileCoord3::new` refuses or that does not fit u8; x / y that do not fit u32
		let s = match rng.below(5) {
			0 => format!("{}/0/0{ext}", rng.range(32, 255)),
			1 => format!("{}/0/0{ext}", *rng.pick(&[256u64, 300, 1000, 4294967296])),
			2 => format!("1/{}/0{ext}", *rng.pick(&[4294967296u64, 99999999999])),
			3 => format!("1/0/{}{ext}", *rng.pick(&[4294967296u64, 99999999999])),
			_ => format!("{}/{}/{}", 255, u32::MAX, u32::MAX),
		};
		(s, Expect::Unparsable, "unrepresentable")
	} else if k < 86 {
		let s = match rng.below(12) {
			0 => "a/b/c".to_string(),
			1 => format!("x/0/0{ext}"),
			2 => format!("1/x/0{ext}"),
			3 => format!("1/0/y{ext}"),
			4 => "1/0/.png".to_string(),
			5 => "-1/0/0".to_string(),
			6 => "1/-0/0".to_string(),
			7 => "1/0/-0".to_string(),
			8 => "1.0/0/0".to_string(),
			9 => "1/0x1/0".to_string(),
			10 => "%31/0/0".to_string(),
			_ => "1/0/+0".to_string(),
		};
		(s, Expect::Unparsable, "non_numeric")
	} else if k < 93 {
		// not of the canonical form, but the code has an opinion (the model is compared, the oracle wants a complete response)
		let (z, x, y) = *rng.pick(&TILES);
		let s = match rng.below(9) {
			0 => format!("+{z}/{x}/{y}"),
			1 => format!("0{z}/00{x}/000{y}.pbf"),
			2 => format!("{z}//{x}/{y}"),
			3 => format!("/{z}/{x}///{y}/"),
			4 => format!("{z}/{x}/{y}/extra"),
			5 => format!("{z}/{x}/{y}abc"),
			6 => format!("{z}/+{x}/{y}"),
			7 => format!("{z}/{x}/{y}/"),
			_ => format!("{z}/{x}/{y}.png/more/parts"),
		};
		(s, Expect::Complete, "non_canonical")
	} else {
		let s = match rng.below(12) {
			0 => "".to_string(),
			1 => "/".to_string(),
			2 => "//".to_string(),
			3 => "///".to_string(),
			4 => "1".to_string(),
			5 => "1/0".to_string(),
			6 => "tiles.json".to_string(),
			7 => "meta.json".to_string(),
			8 => "tiles.json/x".to_string(),
			9 => "foo".to_string(),
			10 => "1/0/".to_string(),
			_ => "/tiles.json".to_string(),
		};
		(s, Expect::Complete, "short")
	}
}

const TOKENS: [&str; 5] = ["gzip", "br", "deflate", "identity", "zstd"];

/// Accept-Encoding value: a subset of the tokens in some order, random case, positive weights. Returns the
/// header value and the lower-cased tokens listed.
fn gen_accept(rng: &mut Rng) -> (Option<String>, Vec<String>, &'static str) {
	let k = rng.below(100);
	if k < 10 {
		return (None, vec![], "absent");
	}
	if k < 13 {
		return (Some(String::new()), vec![], "empty");
	}
	if k < 16 {
		return (Some("*".into()), vec!["*".into()], "star");
	}
	let mut toks: Vec<&str> = TOKENS.to_vec();
	// shuffle
	for i in (1..toks.len()).rev() {
		let j = rng.below(i as u64 + 1) as usize;
		toks.swap(i, j);
	}
	let n = rng.range(1, 5) as usize;
	toks.truncate(n);
	let case = rng.below(10); // 0..6 lower, 7 upper, 8 mixed, 9 capitalised
	let sep = *rng.pick(&[", ", ",", " , ", ",  "]);
	let mut listed = vec![];
	let items: Vec<String> = toks
		.iter()
		.map(|t| {
			let t2: String = match case {
				7 => t.to_ascii_uppercase(),
				8 => t.chars().enumerate().map(|(i, c)| if i % 2 == 0 { c.to_ascii_uppercase() } else { c }).collect(),
				9 => {
					let mut c = t.chars();
					c.next().map(|f| f.to_ascii_uppercase().to_string() + c.as_str()).unwrap_or_default()
				}
				_ => t.to_string(),
			};
			listed.push(t.to_string());
			match rng.below(6) {
				0 => format!("{t2};q=1"),
				1 => format!("{t2};q=0.{}", rng.range(1, 9)),
				2 => format!("{t2}; q=0.00{}", rng.range(1, 9)),
				3 => format!("{t2};q=1.0"),
				_ => t2,
			}
		})
		.collect();
	(Some(items.join(sep)), listed, if case >= 7 { "list_other_case" } else { "list_lower" })
}

// ---------------------------------------------------------------------------------------------
// one request: model line + direct oracle
// ---------------------------------------------------------------------------------------------
struct Ctx<'a> {
	servers: &'a [Server],
	defs: &'a [SourceDef],
}

fn hex_or_tilde(s: &Option<String>) -> String {
	match s {
		None => "~".into(),
		Some(v) => hex(v.as_bytes()),
	}
}

fn do_request(out: &mut Out, cx: &Ctx, srv: &Server, d: &SourceDef, rest: &str, accept: &Option<String>, expect: Option<(Expect, Vec<String>)>, class: &str) {
	let line = format!(
		"C05 req {} {} {} {} {} {} {}",
		srv.fast as u8,
		srv.flip as u8,
		cname(d.comp),
		d.fmt,
		tiles_str(),
		hex_or_tilde(accept),
		hex(rest.as_bytes())
	);
	let _ = cx;
	let target = format!("/tiles/{}/{}", d.id, rest);
	let resp = http_get(srv.port, &target, accept.as_deref());
	let mode = if srv.flip { "flip" } else if srv.fast { "fast" } else { "best" };
	let sig = |kind: &str| json!({"kind": kind, "class": class, "container": d.container, "mode": mode});
	let detail = |extra: serde_json::Value| json!({"case": line, "request": target, "accept_encoding": accept, "source": d.id, "mode": mode, "info": extra});
	let ans = match &resp {
		None => "dropped".to_string(),
		Some(r) if r.status == 200 => format!("200 ct={} ce={}", r.header("content-type").unwrap_or("-"), r.header("content-encoding").unwrap_or("-")),
		Some(r) => format!("{}", r.status),
	};
	// ---- direct oracle ----
	match &resp {
		None => out.oracle(false, "C05 no complete HTTP response (connection dropped)", sig("dropped"), detail(json!(null))),
		Some(r) => {
			out.oracle(matches!(r.status, 200 | 400 | 404), "C05 unexpected status", sig("status_other"), detail(json!({"status": r.status})));
			if let Some((exp, listed)) = &expect {
				match exp {
					Expect::Coord(z, x, y) => {
						// which stored tile does the request address?  (`--flip-y`: row counted from the other end)
						let stored = TILES.iter().find(|c| {
							let n = 1u64 << c.0;
							c.0 as u64 == *z && c.1 as u64 == *x && (if srv.flip { *y < n && n - 1 - *y == c.2 as u64 } else { c.2 as u64 == *y })
						});
						match stored {
							Some(c) => {
								out.oracle(r.status == 200, "C05 stored tile not served with 200", sig("status_hit"), detail(json!({"status": r.status})));
								if r.status == 200 {
									let ct_ok = r.header("content-type") == Some(parse_format(d.fmt).as_mime_str()) && r.header_count("content-type") == 1;
									out.oracle(ct_ok, "C05 content-type", sig("content_type"), detail(json!({"content_type": r.header("content-type")})));
									let ce = r.header("content-encoding").map(|s| s.to_ascii_lowercase());
									let ce_ok = r.header_count("content-encoding") <= 1 && ce.as_ref().is_none_or(|t| listed.iter().any(|l| l == t));
									out.oracle(ce_ok, "C05 content-encoding not listed by the client", sig("encoding_not_listed"), detail(json!({"content_encoding": ce, "listed": listed})));
									let dec = match ce.as_deref() {
										None => Some(r.body.clone()),
										Some("gzip") => gz_dec(&r.body),
										Some("br") => br_dec(&r.body),
										Some(_) => None,
									};
									out.oracle(
										dec.as_ref() == Some(&payload(d.fmt, *c)),
										"C05 body is not the stored tile",
										sig("body"),
										detail(json!({"content_encoding": ce, "body_len": r.body.len(), "decoded_len": dec.as_ref().map(|d| d.len())})),
									);
								}
							}
							None => out.oracle(r.status == 404, "C05 absent tile not answered with 404", sig("status_miss"), detail(json!({"status": r.status}))),
						}
					}
					Expect::Unparsable => out.oracle(r.status == 400, "C05 unparsable coordinate not answered with 400", sig("status_unparsable"), detail(json!({"status": r.status}))),
					Expect::Complete => {}
				}
			}
		}
	}
	let nontrivial = resp.as_ref().is_some_and(|r| r.status == 200) || class == "out_of_range" || class == "short";
	out.case(&line, &ans, nontrivial);
	out.count(&format!("path_{class}"));
	out.count(&format!("status_{}", resp.as_ref().map_or("dropped".to_string(), |r| r.status.to_string())));
	out.count(&format!("mode_{mode}"));
	out.count(&format!("container_{}", d.container));
	if let Some(r) = &resp {
		if r.status == 200 {
			out.count(&format!("ce_{}", r.header("content-encoding").unwrap_or("none")));
		}
	}
}

// ---------------------------------------------------------------------------------------------
// optimize_compression: whole decision table on the real function
// ---------------------------------------------------------------------------------------------
fn opt_case(out: &mut Out, c: TileCompression, bits: [bool; 3], goal: &str, kind: &str, pl: &[u8]) {
	let line = format!(
		"C05 opt {} {}{}{} {} {} {}",
		cname(c),
		bits[0] as u8,
		bits[1] as u8,
		bits[2] as u8,
		goal,
		kind,
		hex(pl)
	);
	let enc = compress(Blob::from(pl.to_vec()), &c).unwrap().into_vec();
	let blob = match kind {
		"enc" => enc,
		"nil" => vec![],
		_ => enc[..enc.len().saturating_sub(1)].to_vec(),
	};
	let mut set = EnumSet::new();
	for (i, comp) in COMPS.iter().enumerate() {
		if bits[i] {
			set.insert(*comp);
		}
	}
	let mut tgt = TargetCompression::from_set(set);
	match goal {
		"fast" => tgt.set_fast_compression(),
		"inc" => tgt.set_incompressible(),
		_ => {}
	}
	let r = catch(|| optimize_compression(Blob::from(blob.clone()), &c, &tgt).ok().map(|(b, c2)| (b.into_vec(), c2)));
	let ans = match &r {
		Ok(Some((b2, c2))) => {
			let dec = versatiles_core::utils::decompress(Blob::from(b2.clone()), c2).ok().map(|b| b.into_vec());
			format!("c={} same={} dec={}", cname(*c2), (b2 == &blob) as u8, dec.map_or("err".into(), |d| hex(&d)))
		}
		Ok(None) => "err".into(),
		Err(_) => "panic".into(),
	};
	// oracle from the statement: the result is allowed and carries the same payload
	let ok = match &r {
		Ok(Some((b2, c2))) => {
			let idx = COMPS.iter().position(|x| x == c2).unwrap();
			bits[idx] && indep_dec(*c2, b2) == indep_dec(c, &blob)
		}
		Ok(None) => !bits[0] || indep_dec(c, &blob).is_none(), // refusing is only right without 'Uncompressed' or for an undecodable blob
		Err(_) => false,
	};
	out.oracle(ok, "C05 optimize_compression", json!({"kind":"optimize","input":cname(c),"allowed":format!("{}{}{}", bits[0] as u8, bits[1] as u8, bits[2] as u8),"goal":goal,"blob":kind}), json!({"case": line}));
	out.case(&line, &ans, bits[0] && kind == "enc");
	out.count("opt_cases");
}

/// reader-level: coordinates outside the level must give `None`/`Err`, not a panic (the second half of F9)
fn reader_case(out: &mut Out, d: &SourceDef, flip: bool, c: (u8, u32, u32), rt: &tokio::runtime::Runtime) {
	let path = d.path.clone();
	let r = catch(|| {
		rt.block_on(async {
			let reader: Box<dyn TilesReaderTrait> = if d.container == "mbtiles" {
				MBTilesReader::open_path(&path)?.boxed()
			} else {
				versatiles_container::get_reader(path.to_str().unwrap()).await?
			};
			let reader: Box<dyn TilesReaderTrait> = if flip {
				let mut cp = TilesConverterParameters::new_default();
				cp.flip_y = true;
				TilesConvertReader::new_from_reader(reader, cp)?.boxed()
			} else {
				reader
			};
			let coord = TileCoord3::new(c.1, c.2, c.0)?;
			anyhow::Ok(reader.get_tile_data(&coord).await.ok().flatten().is_some())
		})
	});
	let in_range = (c.1 as u64) < (1u64 << c.0) && (c.2 as u64) < (1u64 << c.0);
	let ok = if in_range { matches!(r, Ok(Ok(_))) } else { matches!(r, Ok(Ok(false))) };
	out.oracle(
		ok,
		"C05 reader lookup outside the level",
		json!({"kind":"reader_out_of_range","container":d.container,"flip":flip,"outcome": match &r { Ok(Ok(true)) => "tile", Ok(Ok(false)) => "none", Ok(Err(_)) => "open-error", Err(_) => "panic" }}),
		json!({"case": format!("C05 reader {} {} {}/{}/{}", d.id, flip as u8, c.0, c.1, c.2), "panic": r.as_ref().err().map(|m| trunc(m, 160))}),
	);
	out.eval(&format!("reader {} {flip} {c:?}", d.id), true);
	out.count("reader_level_lookups");
}

fn reader_out_of_range(out: &mut Out, defs: &[SourceDef], rt: &tokio::runtime::Runtime) {
	let coords: Vec<(u8, u32, u32)> = vec![(0, 0, 1), (1, 0, 2), (1, 2, 0), (2, 1, 4), (3, 0, 8), (3, 7, u32::MAX), (5, 0, 32), (31, 0, u32::MAX), (3, u32::MAX, u32::MAX)];
	for d in defs.iter().filter(|d| d.fmt == "pbf" || d.fmt == "png") {
		for flip in [false, true] {
			if d.container != "mbtiles" && !flip {
				continue; // plain versatiles/pmtiles lookups are covered over HTTP
			}
			for c in &coords {
				reader_case(out, d, flip, *c, rt);
			}
		}
	}
}

/// requests outside the model's alphabet (raw UTF-8, control-ish escapes, huge numbers, repeated headers):
/// the statement still demands a complete response with 200/400/404
fn odd_requests(out: &mut Out, servers: &[Server], defs: &[SourceDef], flip_defs: &[SourceDef]) {
	let long_digits = "9".repeat(400);
	let rests: Vec<String> = vec![
		"%00/0/0".to_string(),
		"1/0/0%2e%2e".to_string(),
		format!("{long_digits}/0/0"),
		format!("1/{long_digits}/0"),
		format!("1/0/{long_digits}"),
		"1/0/0?x=1/2/3".to_string(),
		"1/0/0;v=1".to_string(),
		"..//../1/0/0".to_string(),
		"1/0/0/..".to_string(),
		"٣/٠/٠".to_string(),
		"1/0/٣".to_string(),
		"1/0/0²".to_string(),
	];
	for srv in servers {
		let pool: &[SourceDef] = if srv.flip { flip_defs } else { defs };
		for d in pool.iter().filter(|d| d.fmt == "pbf").take(4) {
			for rest in &rests {
				let target = format!("/tiles/{}/{}", d.id, rest);
				let resp = http_get(srv.port, &target, Some("gzip, br"));
				// hyper may refuse the request line itself (400) – still a complete response
				let ok = resp.as_ref().is_some_and(|r| matches!(r.status, 200 | 400 | 404));
				out.oracle(
					ok,
					"C05 odd request: no complete 200/400/404 response",
					json!({"kind":"odd_request","container":d.container,"dropped":resp.is_none()}),
					json!({"case": format!("C05 odd {}", hex(target.as_bytes())), "request": target, "status": resp.as_ref().map(|r| r.status)}),
				);
				out.eval(&format!("odd {} {} {}", srv.port, d.id, rest), true);
				out.count("odd_requests");
			}
			// two Accept-Encoding headers: only the first one may be used, and only what it lists
			let target = format!("/tiles/{}/1/1/1", d.id);
			let r2 = http_get(srv.port, &target, Some("identity\r\nAccept-Encoding: br"));
			let ok = r2.as_ref().is_some_and(|r| matches!(r.status, 200 | 400 | 404) && r.header("content-encoding").is_none_or(|e| e == "br"));
			out.oracle(ok, "C05 odd request: repeated Accept-Encoding", json!({"kind":"odd_repeated_header","container":d.container}), json!({"case": format!("C05 odd2 {}", d.id), "status": r2.as_ref().map(|r| r.status)}));
			out.count("odd_requests");
		}
	}
}

fn unhex_str(s: &str) -> String {
	String::from_utf8(unhex(s)).unwrap()
}

pub fn run(args: &Args) {
	quiet_panics();
	let mut out = Out::new(&args.out);
	out.rule = "raw HTTP/1.1 GET /tiles/<id>/<rest> against the freshly built `versatiles serve` in modes best / --fast / --flip-y over versatiles, pmtiles (3 stored compressions × pbf/png), mbtiles (pbf.gz, png) and the other media types; <rest> classes: stored, in-range absent, out-of-range x/y (2^z, 2^z+1, 2^32-1 …), deep zoom, z>31 / overflowing numbers, non-numeric, non-canonical (+, leading zeros, empty segments, extra parts), short / empty-segment-only paths; Accept-Encoding absent / empty / * / ordered subsets of {gzip,br,deflate,identity,zstd} in lower, upper, mixed case with positive weights; plus the whole decision table of optimize_compression (3 inputs × 8 allowed sets × 3 goals × valid/empty/truncated blob); non-trivial = a 200 response, an out-of-range or short path, or an optimize case with a valid blob and 'Uncompressed' allowed; distinct by case text".into();
	let rt = runtime();
	let dir = args.out.join("c05");
	std::fs::create_dir_all(&dir).unwrap();
	let defs = source_defs(&dir, args.thorough());
	write_sources(&defs, &rt);
	let bin = std::env::var("VTH_BIN").unwrap_or_else(|_| "/verif/harness/target-repo/debug/versatiles".into());
	if !std::path::Path::new(&bin).exists() {
		eprintln!("infrastructure error: {bin} does not exist");
		std::process::exit(3);
	}
	// the flip server only needs a few sources
	let flip_defs: Vec<SourceDef> = defs.iter().filter(|d| (d.fmt == "pbf" || d.fmt == "png") && (d.container == "mbtiles" || d.comp == TileCompression::Gzip)).cloned().collect();
	let servers = vec![start_server(&bin, &defs, false, false, &dir), start_server(&bin, &defs, true, false, &dir), start_server(&bin, &flip_defs, false, true, &dir)];
	let cx = Ctx { servers: &servers, defs: &defs };
	let by_id: BTreeMap<String, SourceDef> = defs.iter().map(|d| (d.id.clone(), d.clone())).collect();
	let _ = by_id;

	let find_server = |fast: bool, flip: bool| servers.iter().find(|s| s.fast == fast && s.flip == flip);
	let find_def = |comp: TileCompression, fmt: &str, flip: bool, pick: u64| -> Option<&SourceDef> {
		let pool: Vec<&SourceDef> = (if flip { &flip_defs } else { &defs }).iter().filter(|d| d.comp == comp && d.fmt == fmt).collect();
		if pool.is_empty() {
			None
		} else {
			// resolve the container by the defs list of the full set so that the SourceDef lives long enough
			let id = &pool[(pick % pool.len() as u64) as usize].id;
			defs.iter().find(|d| &d.id == id)
		}
	};

	if let Some(p) = &args.replay {
		for line in std::fs::read_to_string(p).unwrap().lines() {
			let t: Vec<&str> = line.trim().split(' ').collect();
			match t.as_slice() {
				["C05", "req", fast, flip, comp, fmt, _tiles, accept, rest] => {
					let (fast, flip) = (*fast == "1", *flip == "1");
					let accept = if *accept == "~" { None } else { Some(unhex_str(accept)) };
					let rest = unhex_str(rest);
					let Some(srv) = find_server(fast, flip) else { continue };
					// the container kind is not part of the model line: replay on every container that matches
					let pool: Vec<&SourceDef> = (if flip { &flip_defs } else { &defs }).iter().filter(|d| d.comp == parse_comp(comp).unwrap() && d.fmt == *fmt).collect();
					for d in pool {
						do_request(&mut out, &cx, srv, d, &rest, &accept, None, "replay");
					}
				}
				["C05", "reader", id, flip, coord] => {
					let c: Vec<u64> = coord.split('/').map(|x| x.parse().unwrap()).collect();
					if let Some(d) = defs.iter().find(|d| d.id == *id) {
						reader_case(&mut out, d, *flip == "1", (c[0] as u8, c[1] as u32, c[2] as u32), &rt);
					}
				}
				["C05", "opt", c, bits, goal, kind, pl] => {
					let b: Vec<bool> = bits.chars().map(|x| x == '1').collect();
					opt_case(&mut out, parse_comp(c).unwrap(), [b[0], b[1], b[2]], goal, kind, &unhex(pl));
				}
				_ => {}
			}
		}
		out.finish();
		return;
	}
	let _ = find_def;

	let mut rng = Rng::new(args.seed);
	// A. optimize_compression, exhaustively
	let pls: Vec<Vec<u8>> = vec![vec![0x42], rng.bytes(40), b"aaaaaaaaaaaaaaaaaaaaaaaaaaaaaaaaaaaaaaaaaaaaaaaaaaaaaaaaaaaaaaaa".to_vec()];
	for c in COMPS {
		for m in 0..8u8 {
			for goal in ["fast", "best", "inc"] {
				for kind in ["enc", "nil", "cut"] {
					for pl in &pls {
						opt_case(&mut out, c, [m & 1 != 0, m & 2 != 0, m & 4 != 0], goal, kind, pl);
					}
				}
			}
		}
	}
	// B. reader-level out-of-range lookups
	reader_out_of_range(&mut out, &defs, &rt);
	// C. systematic requests: every source × mode × a fixed list of paths × a fixed list of headers
	let fixed_paths: Vec<(&str, Expect, &str)> = vec![
		("1/1/1", Expect::Coord(1, 1, 1), "stored"),
		("3/7/0.pbf", Expect::Coord(3, 7, 0), "stored"),
		("2/0/0", Expect::Coord(2, 0, 0), "in_range"),
		("1/0/2", Expect::Coord(1, 0, 2), "out_of_range"),
		("1/2/0", Expect::Coord(1, 2, 0), "out_of_range"),
		("3/0/4294967295", Expect::Coord(3, 0, 4294967295), "out_of_range"),
		("31/0/4294967295", Expect::Coord(31, 0, 4294967295), "deep_zoom"),
		("32/0/0", Expect::Unparsable, "unrepresentable"),
		("a/b/c", Expect::Unparsable, "non_numeric"),
		("/", Expect::Complete, "short"),
		("//", Expect::Complete, "short"),
		("1/0", Expect::Complete, "short"),
		("tiles.json", Expect::Complete, "short"),
	];
	let fixed_accept: Vec<(Option<String>, Vec<String>)> = vec![
		(None, vec![]),
		(Some("gzip".into()), vec!["gzip".into()]),
		(Some("br".into()), vec!["br".into()]),
		(Some("gzip, deflate, br".into()), vec!["gzip".into(), "deflate".into(), "br".into()]),
		(Some("identity".into()), vec!["identity".into()]),
	];
	for srv in &servers {
		let pool: &[SourceDef] = if srv.flip { &flip_defs } else { &defs };
		for d in pool {
			for (i, (rest, exp, class)) in fixed_paths.iter().enumerate() {
				for (j, (acc, listed)) in fixed_accept.iter().enumerate() {
					// full cross product only for stored tiles; others with two header variants
					if *class != "stored" && j != (i % fixed_accept.len()) && j != 3 {
						continue;
					}
					do_request(&mut out, &cx, srv, d, rest, acc, Some((exp.clone(), listed.clone())), class);
				}
			}
		}
	}
	// D. sampled requests
	let n = args.n(5000, 60000);
	for _ in 0..n {
		let srv = &servers[match rng.below(10) {
			0..=3 => 0,
			4..=7 => 1,
			_ => 2,
		}];
		let pool: &[SourceDef] = if srv.flip { &flip_defs } else { &defs };
		let d = rng.pick(pool);
		let (rest, exp, class) = gen_rest(&mut rng);
		let (acc, listed, aclass) = gen_accept(&mut rng);
		out.count(&format!("accept_{aclass}"));
		do_request(&mut out, &cx, srv, d, &rest, &acc, Some((exp, listed)), class);
	}
	// E. requests outside the model's alphabet (oracle only)
	odd_requests(&mut out, &servers, &defs, &flip_defs);
	// the servers must have survived everything
	let mut servers = servers;
	for s in servers.iter_mut() {
		let alive = matches!(s.child.try_wait(), Ok(None));
		out.oracle(alive, "C05 server process died", json!({"kind":"server_died","fast":s.fast,"flip":s.flip}), json!({"case": "-", "port": s.port}));
	}
	out.notes.push(format!("{} tile sources per server; servers: best, --fast, --flip-y", defs.len()));
	drop(servers);
	let _ = std::fs::remove_dir_all(&dir);
	out.finish();
}
