//! INDEPENDENT encoders and decoders for the five container formats, written from the published
//! layouts (versatiles v02, PMTiles v3, MBTiles 1.3, ustar tar / directory tree) and NOT from the
//! code base's own writers / readers / types.  Only generic crates are used (flate2, brotli, rusqlite).
//! Encoders take an explicit "choices" struct (every freedom of the layout is a knob); decoders are
//! strict: they reject anything that violates the layout (hard error) and collect soft deviations
//! (`warnings`) that do not prevent recovering the tile map.
use crate::common::Rng;
use std::collections::{BTreeMap, BTreeSet};
use std::io::{Read, Write};
use std::path::Path;

pub type Coord = (u8, u32, u32); // (z, x, y)
pub type TileMap = BTreeMap<Coord, Vec<u8>>;
pub type Tab = Vec<(Vec<u8>, Vec<u8>)>;

// ------------------------------------------------------------------------------------------ basics

pub fn hexs(b: &[u8]) -> String {
	if b.is_empty() {
		return "-".to_string();
	}
	const D: &[u8; 16] = b"0123456789abcdef";
	let mut s = Vec::with_capacity(b.len() * 2);
	for x in b {
		s.push(D[(x >> 4) as usize]);
		s.push(D[(x & 15) as usize]);
	}
	String::from_utf8(s).unwrap()
}
pub fn unhexs(s: &str) -> Option<Vec<u8>> {
	if s == "-" {
		return Some(vec![]);
	}
	let b = s.as_bytes();
	if b.len() % 2 != 0 {
		return None;
	}
	let v = |c: u8| match c {
		b'0'..=b'9' => Some(c - b'0'),
		b'a'..=b'f' => Some(c - b'a' + 10),
		_ => None,
	};
	let mut out = Vec::with_capacity(b.len() / 2);
	for i in 0..b.len() / 2 {
		out.push(v(b[2 * i])? * 16 + v(b[2 * i + 1])?);
	}
	Some(out)
}
pub fn fnv64(b: &[u8]) -> u64 {
	let mut h: u64 = 0xcbf29ce484222325;
	for x in b {
		h ^= *x as u64;
		h = h.wrapping_mul(0x100000001b3);
	}
	h
}

#[derive(Clone, Copy, Debug, PartialEq, Eq, PartialOrd, Ord, Hash)]
pub enum Fmt {
	Avif,
	Bin,
	Geojson,
	Jpg,
	Json,
	Pbf,
	Png,
	Svg,
	Topojson,
	Webp,
}
pub const ALL_FMT: [Fmt; 10] = [Fmt::Avif, Fmt::Bin, Fmt::Geojson, Fmt::Jpg, Fmt::Json, Fmt::Pbf, Fmt::Png, Fmt::Svg, Fmt::Topojson, Fmt::Webp];
impl Fmt {
	pub fn name(self) -> &'static str {
		match self {
			Fmt::Avif => "avif",
			Fmt::Bin => "bin",
			Fmt::Geojson => "geojson",
			Fmt::Jpg => "jpg",
			Fmt::Json => "json",
			Fmt::Pbf => "pbf",
			Fmt::Png => "png",
			Fmt::Svg => "svg",
			Fmt::Topojson => "topojson",
			Fmt::Webp => "webp",
		}
	}
	pub fn from_name(s: &str) -> Option<Fmt> {
		ALL_FMT.iter().copied().find(|f| f.name() == s)
	}
	/// versatiles v02 header byte
	pub fn vt_code(self) -> u8 {
		match self {
			Fmt::Bin => 0x00,
			Fmt::Png => 0x10,
			Fmt::Jpg => 0x11,
			Fmt::Webp => 0x12,
			Fmt::Avif => 0x13,
			Fmt::Svg => 0x14,
			Fmt::Pbf => 0x20,
			Fmt::Geojson => 0x21,
			Fmt::Topojson => 0x22,
			Fmt::Json => 0x23,
		}
	}
	pub fn from_vt_code(c: u8) -> Option<Fmt> {
		ALL_FMT.iter().copied().find(|f| f.vt_code() == c)
	}
	/// PMTiles v3 tile type byte (None: the format has no PMTiles tile type)
	pub fn pm_type(self) -> Option<u8> {
		match self {
			Fmt::Pbf => Some(1),
			Fmt::Png => Some(2),
			Fmt::Jpg => Some(3),
			Fmt::Webp => Some(4),
			Fmt::Avif => Some(5),
			_ => None,
		}
	}
	pub fn from_pm_type(c: u8) -> Option<Fmt> {
		match c {
			1 => Some(Fmt::Pbf),
			2 => Some(Fmt::Png),
			3 => Some(Fmt::Jpg),
			4 => Some(Fmt::Webp),
			5 => Some(Fmt::Avif),
			_ => None,
		}
	}
}

#[derive(Clone, Copy, Debug, PartialEq, Eq, PartialOrd, Ord, Hash)]
pub enum Comp {
	None,
	Gzip,
	Brotli,
}
pub const ALL_COMP: [Comp; 3] = [Comp::None, Comp::Gzip, Comp::Brotli];
impl Comp {
	pub fn name(self) -> &'static str {
		match self {
			Comp::None => "none",
			Comp::Gzip => "gzip",
			Comp::Brotli => "brotli",
		}
	}
	pub fn from_name(s: &str) -> Option<Comp> {
		ALL_COMP.iter().copied().find(|c| c.name() == s)
	}
	pub fn vt_code(self) -> u8 {
		match self {
			Comp::None => 0,
			Comp::Gzip => 1,
			Comp::Brotli => 2,
		}
	}
	pub fn from_vt_code(c: u8) -> Option<Comp> {
		ALL_COMP.iter().copied().find(|x| x.vt_code() == c)
	}
	pub fn pm_code(self) -> u8 {
		self.vt_code() + 1
	}
	pub fn from_pm_code(c: u8) -> Option<Comp> {
		ALL_COMP.iter().copied().find(|x| x.pm_code() == c)
	}
	pub fn ext(self) -> &'static str {
		match self {
			Comp::None => "",
			Comp::Gzip => ".gz",
			Comp::Brotli => ".br",
		}
	}
}

pub fn gzip(b: &[u8]) -> Vec<u8> {
	let mut e = flate2::write::GzEncoder::new(Vec::new(), flate2::Compression::new(6));
	e.write_all(b).unwrap();
	e.finish().unwrap()
}
pub fn gunzip(b: &[u8]) -> Result<Vec<u8>, String> {
	let mut out = Vec::new();
	flate2::read::GzDecoder::new(b).read_to_end(&mut out).map_err(|e| format!("gunzip: {e}"))?;
	Ok(out)
}
pub fn brotli_c(b: &[u8]) -> Vec<u8> {
	let mut out = Vec::new();
	{
		let mut w = brotli::CompressorWriter::new(&mut out, 4096, 5, 22);
		w.write_all(b).unwrap();
		w.flush().unwrap();
	}
	out
}
pub fn brotli_d(b: &[u8]) -> Result<Vec<u8>, String> {
	let mut out = Vec::new();
	brotli::Decompressor::new(b, 4096).read_to_end(&mut out).map_err(|e| format!("brotli: {e}"))?;
	Ok(out)
}
pub fn compress(c: Comp, b: &[u8]) -> Vec<u8> {
	match c {
		Comp::None => b.to_vec(),
		Comp::Gzip => gzip(b),
		Comp::Brotli => brotli_c(b),
	}
}
pub fn decompress(c: Comp, b: &[u8]) -> Result<Vec<u8>, String> {
	match c {
		Comp::None => Ok(b.to_vec()),
		Comp::Gzip => gunzip(b),
		Comp::Brotli => brotli_d(b),
	}
}

/// What a decoder recovers.
#[derive(Clone, Debug, Default)]
pub struct Decoded {
	pub format: Option<Fmt>,
	pub compression: Option<Comp>,
	pub tiles: TileMap,
	/// coordinates stored with a zero-length payload where the format can express that (mbtiles, tar, directory, pmtiles len 0)
	pub empties: BTreeSet<Coord>,
	pub meta: Option<Vec<u8>>,
	/// soft deviations from the layout that do not prevent recovering the map
	pub warnings: Vec<String>,
	pub info: BTreeMap<String, u64>,
}

// ----------------------------------------------------------------------------------------- Hilbert

/// position of (x,y) on the Hilbert curve of order k (2^k × 2^k), recursive quadrant formulation
fn hilbert_d(k: u32, x: u64, y: u64) -> u64 {
	if k == 0 {
		return 0;
	}
	let h = 1u64 << (k - 1);
	let (q, nx, ny) = match (x >= h, y >= h) {
		(false, false) => (0, y, x),
		(false, true) => (1, x, y - h),
		(true, true) => (2, x - h, y - h),
		(true, false) => (3, h - 1 - y, h - 1 - (x - h)),
	};
	q * h * h + hilbert_d(k - 1, nx, ny)
}
fn hilbert_xy(k: u32, d: u64) -> (u64, u64) {
	if k == 0 {
		return (0, 0);
	}
	let h = 1u64 << (k - 1);
	let q = d / (h * h);
	let (a, b) = hilbert_xy(k - 1, d % (h * h));
	match q {
		0 => (b, a),
		1 => (a, b + h),
		2 => (a + h, b + h),
		_ => (h - 1 - b + h, h - 1 - a),
	}
}
/// number of tiles on all levels below z: Σ_{t<z} 4^t
pub fn level_base(z: u8) -> u64 {
	(0..z as u32).map(|t| 1u64 << (2 * t)).sum()
}
/// PMTiles tile id of (z,x,y); None if z > 31 or x,y outside the level
pub fn tile_id(z: u8, x: u32, y: u32) -> Option<u64> {
	if z > 31 || (x as u64) >= (1u64 << z) || (y as u64) >= (1u64 << z) {
		return None;
	}
	Some(level_base(z) + hilbert_d(z as u32, x as u64, y as u64))
}
pub fn tile_coord(id: u64) -> Option<Coord> {
	for z in 0..32u8 {
		let n = 1u64 << (2 * z as u32);
		let b = level_base(z);
		if id < b + n {
			let (x, y) = hilbert_xy(z as u32, id - b);
			return Some((z, x as u32, y as u32));
		}
	}
	None
}

pub fn self_test() -> Result<(), String> {
	for ((z, x, y), id) in [((0u8, 0u32, 0u32), 0u64), ((1, 1, 1), 3), ((2, 2, 2), 13), ((3, 5, 3), 73), ((3, 7, 7), 63), ((1, 0, 0), 1), ((1, 0, 1), 2), ((1, 1, 0), 4)] {
		if tile_id(z, x, y) != Some(id) {
			return Err(format!("tile_id({z},{x},{y}) = {:?}, expected {id}", tile_id(z, x, y)));
		}
		if tile_coord(id) != Some((z, x, y)) {
			return Err(format!("tile_coord({id}) = {:?}", tile_coord(id)));
		}
	}
	let mut r = Rng::new(77);
	for _ in 0..2000 {
		let z = r.below(32) as u8;
		let x = r.below(1u64 << z) as u32;
		let y = r.below(1u64 << z) as u32;
		let id = tile_id(z, x, y).unwrap();
		if tile_coord(id) != Some((z, x, y)) {
			return Err(format!("hilbert inverse fails at {z},{x},{y}"));
		}
	}
	// adjacency: consecutive ids on a level are edge neighbours
	for z in 1..6u8 {
		for d in 0..(1u64 << (2 * z)) - 1 {
			let a = tile_coord(level_base(z) + d).unwrap();
			let b = tile_coord(level_base(z) + d + 1).unwrap();
			if (a.1 as i64 - b.1 as i64).abs() + (a.2 as i64 - b.2 as i64).abs() != 1 {
				return Err(format!("hilbert not continuous at z={z} d={d}"));
			}
		}
	}
	Ok(())
}

// ------------------------------------------------------------------------------------------ varint

pub fn put_varint(out: &mut Vec<u8>, mut v: u64) {
	loop {
		let b = (v & 0x7f) as u8;
		v >>= 7;
		if v == 0 {
			out.push(b);
			return;
		}
		out.push(b | 0x80);
	}
}
pub fn get_varint(b: &[u8], pos: &mut usize) -> Result<u64, String> {
	let mut v: u64 = 0;
	for i in 0..10 {
		let byte = *b.get(*pos).ok_or("varint: end of data")?;
		*pos += 1;
		let part = (byte & 0x7f) as u64;
		if i == 9 && part > 1 {
			return Err("varint: exceeds 64 bit".into());
		}
		v |= part << (7 * i);
		if byte & 0x80 == 0 {
			return Ok(v);
		}
	}
	Err("varint: longer than 10 bytes".into())
}

fn be_u32(b: &[u8], p: usize) -> u32 {
	u32::from_be_bytes(b[p..p + 4].try_into().unwrap())
}
fn be_u64(b: &[u8], p: usize) -> u64 {
	u64::from_be_bytes(b[p..p + 8].try_into().unwrap())
}
fn le_u64(b: &[u8], p: usize) -> u64 {
	u64::from_le_bytes(b[p..p + 8].try_into().unwrap())
}
fn le_i32(b: &[u8], p: usize) -> i32 {
	i32::from_le_bytes(b[p..p + 4].try_into().unwrap())
}
/// [off, off+len) inside [lo, hi) without overflow
fn inside(off: u64, len: u64, lo: u64, hi: u64) -> bool {
	off >= lo && off.checked_add(len).map_or(false, |e| e <= hi)
}
fn gap(out: &mut Vec<u8>, rng: &mut Rng, max_gap: usize) {
	if max_gap > 0 && rng.chance(1, 2) {
		let n = rng.range(1, max_gap as u64) as usize;
		out.extend(std::iter::repeat(0xEEu8).take(n));
	}
}
fn shuffle<T>(v: &mut [T], rng: &mut Rng) {
	for i in (1..v.len()).rev() {
		let j = rng.below(i as u64 + 1) as usize;
		v.swap(i, j);
	}
}

// ------------------------------------------------------------------------------------ versatiles v02

#[derive(Clone, Debug, PartialEq, Eq)]
pub struct VtBlock {
	pub z: u8,
	pub bx: u32,
	pub by: u32,
	pub col_min: u8,
	pub row_min: u8,
	pub col_max: u8,
	pub row_max: u8,
}
impl VtBlock {
	/// declared range in global tile coordinates (xmin, ymin, xmax, ymax)
	pub fn global(&self) -> (u32, u32, u32, u32) {
		(self.bx * 256 + self.col_min as u32, self.by * 256 + self.row_min as u32, self.bx * 256 + self.col_max as u32, self.by * 256 + self.row_max as u32)
	}
}

#[derive(Clone, Debug)]
pub struct VtChoices {
	pub fmt: Fmt,
	pub comp: Comp,
	/// raw JSON; stored compressed with `comp`; None = no metadata (length 0)
	pub meta: Option<Vec<u8>>,
	/// 0 = tight ranges, 1 = padded beyond the tiles, 2 = full block (0..min(255, 2^z-1)) when ≤ 1024 entries, else padded
	pub range_mode: u8,
	/// additionally declare a block whose tiles are all absent
	pub empty_block: bool,
	pub shuffle_blocks: bool,
	pub shuffle_index: bool,
	/// order of the tile blobs inside a block: 0 = row-major (= tile-index order, what the own writer does),
	/// 1 = random, 2 = reverse row-major (the FIRST index entry has the LARGEST offset), 3 = column-major
	pub blob_order: u8,
	/// equal payloads inside a block share one offset (any size)
	pub share: bool,
	pub max_gap: usize,
	/// exactly this many padding bytes between consecutive tile blobs of a block (0 = none): seeks the
	/// reader's chunk rules (32 KiB gap, 64 MiB chunk)
	pub exact_gap: usize,
	pub bbox: [i32; 4],
}
impl VtChoices {
	pub fn plain(fmt: Fmt, comp: Comp) -> VtChoices {
		VtChoices { fmt, comp, meta: None, range_mode: 0, empty_block: false, shuffle_blocks: false, shuffle_index: false, blob_order: 0, share: false, max_gap: 0, exact_gap: 0, bbox: [-1800000000, -850511287, 1800000000, 850511287] }
	}
}
pub struct VtEncoded {
	pub bytes: Vec<u8>,
	pub blocks: Vec<VtBlock>,
	/// compressed -> inflated for metadata (if compressed), every tile index, the block index
	pub tab: Tab,
	pub index_entries: usize,
	pub shared_offsets: usize,
}

pub fn encode_versatiles(tiles: &TileMap, ch: &VtChoices, rng: &mut Rng) -> VtEncoded {
	// group the non-empty tiles by block
	let mut groups: BTreeMap<(u8, u32, u32), Vec<(u32, u32, &Vec<u8>)>> = BTreeMap::new();
	for ((z, x, y), p) in tiles {
		if !p.is_empty() {
			groups.entry((*z, x >> 8, y >> 8)).or_default().push((x & 255, y & 255, p));
		}
	}
	let lim = |z: u8| -> u32 { if z >= 8 { 255 } else { (1u32 << z) - 1 } };
	let mut blocks: Vec<VtBlock> = vec![];
	for ((z, bx, by), ts) in &groups {
		let l = lim(*z);
		let mut c0 = ts.iter().map(|t| t.0).min().unwrap();
		let mut c1 = ts.iter().map(|t| t.0).max().unwrap();
		let mut r0 = ts.iter().map(|t| t.1).min().unwrap();
		let mut r1 = ts.iter().map(|t| t.1).max().unwrap();
		let mode = if ch.range_mode == 2 && (l + 1) * (l + 1) > 1024 { 1 } else { ch.range_mode };
		match mode {
			1 => {
				c0 -= (rng.below(4) as u32).min(c0);
				r0 -= (rng.below(4) as u32).min(r0);
				c1 = (c1 + rng.below(4) as u32).min(l);
				r1 = (r1 + rng.below(4) as u32).min(l);
			}
			2 => {
				c0 = 0;
				r0 = 0;
				c1 = l;
				r1 = l;
			}
			_ => {}
		}
		blocks.push(VtBlock { z: *z, bx: *bx, by: *by, col_min: c0 as u8, row_min: r0 as u8, col_max: c1 as u8, row_max: r1 as u8 });
	}
	if ch.empty_block {
		for _ in 0..8 {
			let z = rng.below(15) as u8;
			let nb = if z >= 8 { 1u32 << (z - 8) } else { 1 };
			let (bx, by) = (rng.below(nb as u64) as u32, rng.below(nb as u64) as u32);
			if groups.contains_key(&(z, bx, by)) {
				continue;
			}
			let l = lim(z);
			let c0 = rng.below(l as u64 + 1) as u32;
			let r0 = rng.below(l as u64 + 1) as u32;
			let c1 = (c0 + rng.below(3) as u32).min(l);
			let r1 = (r0 + rng.below(3) as u32).min(l);
			blocks.push(VtBlock { z, bx, by, col_min: c0 as u8, row_min: r0 as u8, col_max: c1 as u8, row_max: r1 as u8 });
			break;
		}
	}
	if ch.shuffle_blocks {
		shuffle(&mut blocks, rng);
	}
	let mut tab: Tab = vec![];
	let mut out: Vec<u8> = vec![0u8; 66];
	gap(&mut out, rng, ch.max_gap);
	// metadata
	let (meta_off, meta_len) = match &ch.meta {
		Some(m) => {
			let c = compress(ch.comp, m);
			if ch.comp != Comp::None {
				tab.push((c.clone(), m.clone()));
			}
			let o = out.len();
			out.extend_from_slice(&c);
			(o as u64, c.len() as u64)
		}
		None => (0, 0),
	};
	gap(&mut out, rng, ch.max_gap);
	// blocks
	let mut records: Vec<Vec<u8>> = vec![];
	let mut index_entries = 0usize;
	let mut shared_offsets = 0usize;
	for b in &blocks {
		let block_off = out.len();
		let empty: Vec<(u32, u32, &Vec<u8>)> = vec![];
		let ts = groups.get(&(b.z, b.bx, b.by)).unwrap_or(&empty);
		// which payload goes where
		let mut order: Vec<usize> = (0..ts.len()).collect();
		match ch.blob_order {
			1 => shuffle(&mut order, rng),
			2 => {
				order.sort_by_key(|i| (ts[*i].1, ts[*i].0));
				order.reverse();
			}
			3 => order.sort_by_key(|i| (ts[*i].0, ts[*i].1)),
			_ => order.sort_by_key(|i| (ts[*i].1, ts[*i].0)),
		}
		let mut placed: BTreeMap<&Vec<u8>, (u64, u32)> = BTreeMap::new();
		let mut loc: BTreeMap<(u32, u32), (u64, u32)> = BTreeMap::new();
		for i in order {
			let (c, r, p) = ts[i];
			if ch.share {
				if let Some(l) = placed.get(p) {
					loc.insert((c, r), *l);
					shared_offsets += 1;
					continue;
				}
			}
			gap(&mut out, rng, ch.max_gap);
			if ch.exact_gap > 0 && out.len() > block_off {
				out.extend(std::iter::repeat(0xEDu8).take(ch.exact_gap));
			}
			let l = ((out.len() - block_off) as u64, p.len() as u32);
			out.extend_from_slice(p);
			placed.insert(p, l);
			loc.insert((c, r), l);
		}
		gap(&mut out, rng, ch.max_gap);
		let blobs_len = out.len() - block_off;
		let mut raw = vec![];
		for r in b.row_min as u32..=b.row_max as u32 {
			for c in b.col_min as u32..=b.col_max as u32 {
				let (o, l) = loc.get(&(c, r)).copied().unwrap_or((0, 0));
				raw.extend_from_slice(&o.to_be_bytes());
				raw.extend_from_slice(&l.to_be_bytes());
				index_entries += 1;
			}
		}
		let ci = brotli_c(&raw);
		out.extend_from_slice(&ci);
		let mut rec = vec![b.z];
		rec.extend_from_slice(&b.bx.to_be_bytes());
		rec.extend_from_slice(&b.by.to_be_bytes());
		rec.extend_from_slice(&[b.col_min, b.row_min, b.col_max, b.row_max]);
		rec.extend_from_slice(&(block_off as u64).to_be_bytes());
		rec.extend_from_slice(&(blobs_len as u64).to_be_bytes());
		rec.extend_from_slice(&(ci.len() as u32).to_be_bytes());
		debug_assert_eq!(rec.len(), 33);
		records.push(rec);
		tab.push((ci, raw));
		gap(&mut out, rng, ch.max_gap);
	}
	if ch.shuffle_index {
		shuffle(&mut records, rng);
	}
	let raw_bi: Vec<u8> = records.concat();
	let cbi = brotli_c(&raw_bi);
	let bi_off = out.len();
	out.extend_from_slice(&cbi);
	tab.push((cbi.clone(), raw_bi));
	gap(&mut out, rng, ch.max_gap);
	// header
	let zmin = blocks.iter().map(|b| b.z).min().unwrap_or(0);
	let zmax = blocks.iter().map(|b| b.z).max().unwrap_or(0);
	let mut h = Vec::with_capacity(66);
	h.extend_from_slice(b"versatiles_v02");
	h.push(ch.fmt.vt_code());
	h.push(ch.comp.vt_code());
	h.push(zmin);
	h.push(zmax);
	for v in ch.bbox {
		h.extend_from_slice(&v.to_be_bytes());
	}
	h.extend_from_slice(&meta_off.to_be_bytes());
	h.extend_from_slice(&meta_len.to_be_bytes());
	h.extend_from_slice(&(bi_off as u64).to_be_bytes());
	h.extend_from_slice(&(cbi.len() as u64).to_be_bytes());
	debug_assert_eq!(h.len(), 66);
	out[..66].copy_from_slice(&h);
	VtEncoded { bytes: out, blocks, tab, index_entries, shared_offsets }
}

/// parsed block-index record of a versatiles file
#[derive(Clone, Debug)]
pub struct VtRecord {
	pub block: VtBlock,
	pub offset: u64,
	pub blobs_len: u64,
	pub index_len: u32,
	pub raw: Vec<u8>,
}
/// header fields + block records (used by C01v to build the table); strict checks as in `decode_versatiles`
pub struct VtParsed {
	pub fmt: Fmt,
	pub comp: Comp,
	pub zmin: u8,
	pub zmax: u8,
	pub bbox: [i32; 4],
	pub meta_off: u64,
	pub meta_len: u64,
	pub bi_off: u64,
	pub bi_len: u64,
	pub records: Vec<VtRecord>,
}

pub fn parse_versatiles(b: &[u8]) -> Result<VtParsed, String> {
	if b.len() < 66 {
		return Err("shorter than the 66-byte header".into());
	}
	if &b[0..14] != b"versatiles_v02" {
		return Err("bad magic".into());
	}
	let fmt = Fmt::from_vt_code(b[14]).ok_or(format!("unknown tile format code {}", b[14]))?;
	let comp = Comp::from_vt_code(b[15]).ok_or(format!("unknown compression code {}", b[15]))?;
	let (zmin, zmax) = (b[16], b[17]);
	let bbox = [be_u32(b, 18) as i32, be_u32(b, 22) as i32, be_u32(b, 26) as i32, be_u32(b, 30) as i32];
	let (meta_off, meta_len, bi_off, bi_len) = (be_u64(b, 34), be_u64(b, 42), be_u64(b, 50), be_u64(b, 58));
	let flen = b.len() as u64;
	if meta_len > 0 && !inside(meta_off, meta_len, 66, flen) {
		return Err("metadata range outside the file".into());
	}
	let mut records = vec![];
	if bi_len > 0 {
		if !inside(bi_off, bi_len, 66, flen) {
			return Err("block index range outside the file".into());
		}
		let raw = brotli_d(&b[bi_off as usize..(bi_off + bi_len) as usize]).map_err(|e| format!("block index: {e}"))?;
		if raw.len() % 33 != 0 {
			return Err("block index length is not a multiple of 33".into());
		}
		let mut seen = BTreeSet::new();
		for rec in raw.chunks(33) {
			let z = rec[0];
			let (bx, by) = (be_u32(rec, 1), be_u32(rec, 5));
			let (c0, r0, c1, r1) = (rec[9], rec[10], rec[11], rec[12]);
			if z > 31 {
				return Err(format!("block level {z} > 31"));
			}
			let nb: u64 = if z >= 8 { 1u64 << (z - 8) } else { 1 };
			if bx as u64 >= nb || by as u64 >= nb {
				return Err(format!("block column/row ({bx},{by}) outside level {z}"));
			}
			if c0 > c1 || r0 > r1 {
				return Err("block range min > max".into());
			}
			if z < 8 && (c1 as u32 >= (1u32 << z) || r1 as u32 >= (1u32 << z)) {
				return Err(format!("block range exceeds level {z}"));
			}
			if !seen.insert((z, bx, by)) {
				return Err(format!("duplicate block ({z},{bx},{by})"));
			}
			let (offset, blobs_len, index_len) = (be_u64(rec, 13), be_u64(rec, 21), be_u32(rec, 29));
			let total = blobs_len.checked_add(index_len as u64).ok_or("block length overflow")?;
			if !inside(offset, total, 66, flen) {
				return Err("block range outside the file".into());
			}
			records.push(VtRecord { block: VtBlock { z, bx, by, col_min: c0, row_min: r0, col_max: c1, row_max: r1 }, offset, blobs_len, index_len, raw: rec.to_vec() });
		}
	}
	Ok(VtParsed { fmt, comp, zmin, zmax, bbox, meta_off, meta_len, bi_off, bi_len, records })
}

pub fn decode_versatiles(b: &[u8]) -> Result<Decoded, String> {
	let p = parse_versatiles(b)?;
	let mut d = Decoded { format: Some(p.fmt), compression: Some(p.comp), ..Default::default() };
	if p.zmin > p.zmax {
		d.warnings.push("header: min zoom > max zoom".into());
	}
	if !(p.bbox[0] <= p.bbox[2] && p.bbox[1] <= p.bbox[3] && p.bbox[0] >= -1800000000 && p.bbox[2] <= 1800000000 && p.bbox[1] >= -900000000 && p.bbox[3] <= 900000000) {
		d.warnings.push("header: bbox not a valid lon/lat box".into());
	}
	if p.meta_len > 0 {
		let m = decompress(p.comp, &b[p.meta_off as usize..(p.meta_off + p.meta_len) as usize]).map_err(|e| format!("metadata: {e}"))?;
		if serde_json::from_slice::<serde_json::Value>(&m).is_err() {
			d.warnings.push("metadata is not JSON".into());
		}
		d.meta = Some(m);
	}
	let mut n_entries = 0u64;
	for r in &p.records {
		let bl = &r.block;
		if bl.z < p.zmin || bl.z > p.zmax {
			return Err(format!("block at level {} outside the header zoom range {}..{}", bl.z, p.zmin, p.zmax));
		}
		let io = (r.offset + r.blobs_len) as usize;
		let raw = brotli_d(&b[io..io + r.index_len as usize]).map_err(|e| format!("tile index: {e}"))?;
		let cols = (bl.col_max - bl.col_min) as usize + 1;
		let rows = (bl.row_max - bl.row_min) as usize + 1;
		if raw.len() != 12 * cols * rows {
			return Err(format!("tile index has {} bytes, expected {}", raw.len(), 12 * cols * rows));
		}
		for (i, e) in raw.chunks(12).enumerate() {
			n_entries += 1;
			let (o, l) = (be_u64(e, 0), be_u32(e, 8) as u64);
			if l == 0 {
				continue;
			}
			if !inside(o, l, 0, r.blobs_len) {
				return Err("tile blob outside the block's blob area".into());
			}
			let x = bl.bx * 256 + bl.col_min as u32 + (i % cols) as u32;
			let y = bl.by * 256 + bl.row_min as u32 + (i / cols) as u32;
			let s = (r.offset + o) as usize;
			d.tiles.insert((bl.z, x, y), b[s..s + l as usize].to_vec());
		}
	}
	d.info.insert("blocks".into(), p.records.len() as u64);
	d.info.insert("index_entries".into(), n_entries);
	Ok(d)
}

// ---------------------------------------------------------------------------------------- PMTiles v3

#[derive(Clone, Copy, Debug, PartialEq, Eq)]
pub struct PmEntry {
	pub id: u64,
	pub off: u64,
	pub len: u64,
	pub run: u64,
}

#[derive(Clone, Debug)]
pub struct PmChoices {
	pub ttype: u8,
	pub tcomp: u8,
	pub icomp: Comp,
	/// merge consecutive ids with equal payload into one entry with run_length > 1
	pub merge_runs: bool,
	/// equal payloads share one blob in the tile-data section
	pub share: bool,
	/// use the "0 = previous offset + previous length" encoding where it applies
	pub offset_zero: bool,
	/// 1 = root only, 2 = root + leaves, 3 = root + leaves + leaves
	pub levels: u8,
	pub fan_leaf: usize,
	pub fan_mid: usize,
	/// levels 2: some leaf chunks are inlined into the root as tile entries
	pub mixed_root: bool,
	/// tile data in tile-id order (header flag 1) or shuffled (flag 0)
	pub clustered: bool,
	/// order of the sections metadata(0), leaf dirs(1), tile data(2) after the root directory
	pub section_order: [u8; 3],
	pub max_gap: usize,
	pub meta: Vec<u8>,
	pub bounds: [i32; 4],
	pub center: (u8, i32, i32),
	/// header counts written as 0 (= unknown)
	pub counts_zero: bool,
}
impl PmChoices {
	pub fn plain(ttype: u8, tcomp: u8) -> PmChoices {
		PmChoices { ttype, tcomp, icomp: Comp::Gzip, merge_runs: false, share: false, offset_zero: true, levels: 1, fan_leaf: 4, fan_mid: 2, mixed_root: false, clustered: true, section_order: [0, 2, 1], max_gap: 0, meta: b"{}".to_vec(), bounds: [-1800000000, -850511287, 1800000000, 850511287], center: (0, 0, 0), counts_zero: false }
	}
}
pub struct PmEncoded {
	pub bytes: Vec<u8>,
	/// compressed -> inflated: metadata, root, every leaf directory (empty when icomp = none)
	pub tab: Tab,
	pub n_entries: usize,
	pub max_run: u64,
	pub shared_offsets: usize,
	pub n_dirs: usize,
	pub levels_used: u8,
}

pub fn serialize_dir(es: &[PmEntry], offset_zero: bool) -> Vec<u8> {
	let mut o = vec![];
	put_varint(&mut o, es.len() as u64);
	let mut last = 0u64;
	for e in es {
		put_varint(&mut o, e.id - last);
		last = e.id;
	}
	for e in es {
		put_varint(&mut o, e.run);
	}
	for e in es {
		put_varint(&mut o, e.len);
	}
	for (i, e) in es.iter().enumerate() {
		if offset_zero && i > 0 && e.off == es[i - 1].off + es[i - 1].len {
			put_varint(&mut o, 0);
		} else {
			put_varint(&mut o, e.off + 1);
		}
	}
	o
}

pub fn encode_pmtiles(tiles: &TileMap, ch: &PmChoices, rng: &mut Rng) -> PmEncoded {
	// entries in tile-id order (non-empty payloads only: a zero length entry is not allowed)
	let mut byid: Vec<(u64, &Vec<u8>)> = tiles.iter().filter(|(_, p)| !p.is_empty()).map(|((z, x, y), p)| (tile_id(*z, *x, *y).unwrap(), p)).collect();
	byid.sort();
	let mut runs: Vec<(u64, u64, &Vec<u8>)> = vec![]; // id, run, payload
	for (id, p) in &byid {
		if ch.merge_runs {
			if let Some(l) = runs.last_mut() {
				if l.0 + l.1 == *id && l.2 == *p {
					l.1 += 1;
					continue;
				}
			}
		}
		runs.push((*id, 1, p));
	}
	// blobs
	let mut blob_of: Vec<usize> = vec![]; // run index -> blob index
	let mut blobs: Vec<&Vec<u8>> = vec![];
	let mut seen: BTreeMap<&Vec<u8>, usize> = BTreeMap::new();
	let mut shared_offsets = 0;
	for r in &runs {
		if ch.share {
			if let Some(i) = seen.get(r.2) {
				blob_of.push(*i);
				shared_offsets += 1;
				continue;
			}
			seen.insert(r.2, blobs.len());
		}
		blob_of.push(blobs.len());
		blobs.push(r.2);
	}
	let mut order: Vec<usize> = (0..blobs.len()).collect();
	if !ch.clustered {
		shuffle(&mut order, rng);
	}
	let mut data: Vec<u8> = vec![];
	let mut blob_off = vec![0u64; blobs.len()];
	for i in order {
		if !ch.clustered {
			gap(&mut data, rng, ch.max_gap);
		}
		blob_off[i] = data.len() as u64;
		data.extend_from_slice(blobs[i]);
	}
	let entries: Vec<PmEntry> = runs.iter().enumerate().map(|(i, r)| PmEntry { id: r.0, off: blob_off[blob_of[i]], len: r.2.len() as u64, run: r.1 }).collect();
	// directory tree
	let mut tab: Tab = vec![];
	let mut leaves: Vec<u8> = vec![];
	let mut n_dirs = 1;
	let put_leaf = |dir: &[PmEntry], leaves: &mut Vec<u8>, tab: &mut Tab, rng: &mut Rng| -> PmEntry {
		let raw = serialize_dir(dir, ch.offset_zero);
		let c = compress(ch.icomp, &raw);
		gap(leaves, rng, ch.max_gap);
		let e = PmEntry { id: dir[0].id, off: leaves.len() as u64, len: c.len() as u64, run: 0 };
		leaves.extend_from_slice(&c);
		if ch.icomp != Comp::None {
			tab.push((c, raw));
		}
		e
	};
	let levels_used;
	let root: Vec<PmEntry> = if ch.levels <= 1 || entries.is_empty() {
		levels_used = 1;
		entries.clone()
	} else {
		let mut l1: Vec<PmEntry> = vec![];
		let mut chunks: Vec<&[PmEntry]> = entries.chunks(ch.fan_leaf.max(1)).collect();
		if ch.levels == 2 && ch.mixed_root {
			for c in &chunks {
				if rng.chance(1, 3) {
					l1.extend_from_slice(c);
				} else {
					l1.push(put_leaf(c, &mut leaves, &mut tab, rng));
					n_dirs += 1;
				}
			}
		} else {
			// leaf directories may be stored in any order inside the section
			let mut idx: Vec<usize> = (0..chunks.len()).collect();
			if !ch.clustered {
				shuffle(&mut idx, rng);
			}
			let mut ptr = vec![PmEntry { id: 0, off: 0, len: 0, run: 0 }; chunks.len()];
			for i in idx {
				ptr[i] = put_leaf(chunks[i], &mut leaves, &mut tab, rng);
				n_dirs += 1;
			}
			l1 = ptr;
		}
		chunks.clear();
		if ch.levels >= 3 {
			levels_used = 3;
			let mut l0 = vec![];
			for c in l1.chunks(ch.fan_mid.max(1)) {
				l0.push(put_leaf(c, &mut leaves, &mut tab, rng));
				n_dirs += 1;
			}
			l0
		} else {
			levels_used = 2;
			l1
		}
	};
	let raw_root = serialize_dir(&root, ch.offset_zero);
	let croot = compress(ch.icomp, &raw_root);
	assert!(croot.len() <= 16384 - 127, "root directory too large for the generator's use");
	if ch.icomp != Comp::None {
		tab.push((croot.clone(), raw_root));
	}
	let cmeta = compress(ch.icomp, &ch.meta);
	if ch.icomp != Comp::None {
		tab.push((cmeta.clone(), ch.meta.clone()));
	}
	// file
	let mut out = vec![0u8; 127];
	out.extend_from_slice(&croot);
	let mut sec = [(0u64, 0u64); 3];
	for s in ch.section_order {
		gap(&mut out, rng, ch.max_gap);
		let body: &[u8] = match s {
			0 => &cmeta,
			1 => &leaves,
			_ => &data,
		};
		sec[s as usize] = (out.len() as u64, body.len() as u64);
		out.extend_from_slice(body);
	}
	gap(&mut out, rng, ch.max_gap);
	let zs: Vec<u8> = byid.iter().map(|(id, _)| tile_coord(*id).unwrap().0).collect();
	let mut h = vec![];
	h.extend_from_slice(b"PMTiles");
	h.push(3);
	for v in [127u64, croot.len() as u64, sec[0].0, sec[0].1, sec[1].0, sec[1].1, sec[2].0, sec[2].1] {
		h.extend_from_slice(&v.to_le_bytes());
	}
	let counts = if ch.counts_zero { [0, 0, 0] } else { [byid.len() as u64, entries.len() as u64, blobs.len() as u64] };
	for v in counts {
		h.extend_from_slice(&v.to_le_bytes());
	}
	h.push(ch.clustered as u8);
	h.push(ch.icomp.pm_code());
	h.push(ch.tcomp);
	h.push(ch.ttype);
	h.push(zs.iter().copied().min().unwrap_or(0));
	h.push(zs.iter().copied().max().unwrap_or(0));
	for v in ch.bounds {
		h.extend_from_slice(&v.to_le_bytes());
	}
	h.push(ch.center.0);
	h.extend_from_slice(&ch.center.1.to_le_bytes());
	h.extend_from_slice(&ch.center.2.to_le_bytes());
	assert_eq!(h.len(), 127);
	out[..127].copy_from_slice(&h);
	PmEncoded { bytes: out, tab, n_entries: entries.len(), max_run: entries.iter().map(|e| e.run).max().unwrap_or(0), shared_offsets, n_dirs, levels_used }
}

pub fn parse_dir(raw: &[u8]) -> Result<Vec<PmEntry>, String> {
	let mut p = 0usize;
	let n = get_varint(raw, &mut p)? as usize;
	if n > raw.len() {
		return Err("directory: entry count larger than the data".into());
	}
	let mut es = vec![PmEntry { id: 0, off: 0, len: 0, run: 0 }; n];
	let mut last = 0u64;
	for (i, e) in es.iter_mut().enumerate() {
		let d = get_varint(raw, &mut p)?;
		if i > 0 && d == 0 {
			return Err("directory: tile ids not strictly increasing".into());
		}
		last = last.checked_add(d).ok_or("directory: tile id overflow")?;
		e.id = last;
	}
	for e in es.iter_mut() {
		e.run = get_varint(raw, &mut p)?;
		if e.run > u32::MAX as u64 {
			return Err("directory: run length exceeds 32 bit".into());
		}
	}
	for e in es.iter_mut() {
		e.len = get_varint(raw, &mut p)?;
		if e.len > u32::MAX as u64 {
			return Err("directory: length exceeds 32 bit".into());
		}
	}
	for i in 0..n {
		let v = get_varint(raw, &mut p)?;
		if v == 0 {
			if i == 0 {
				return Err("directory: first offset is 0".into());
			}
			es[i].off = es[i - 1].off + es[i - 1].len;
		} else {
			es[i].off = v - 1;
		}
	}
	if p != raw.len() {
		return Err("directory: trailing bytes".into());
	}
	Ok(es)
}

pub struct PmHeader {
	pub root: (u64, u64),
	pub meta: (u64, u64),
	pub leaves: (u64, u64),
	pub data: (u64, u64),
	pub counts: [u64; 3],
	pub clustered: u8,
	pub icomp: u8,
	pub tcomp: u8,
	pub ttype: u8,
	pub minz: u8,
	pub maxz: u8,
	pub bounds: [i32; 4],
	pub center: (u8, i32, i32),
}
pub fn parse_pm_header(b: &[u8]) -> Result<PmHeader, String> {
	if b.len() < 127 {
		return Err("shorter than the 127-byte header".into());
	}
	if &b[0..7] != b"PMTiles" {
		return Err("bad magic".into());
	}
	if b[7] != 3 {
		return Err(format!("version {} is not 3", b[7]));
	}
	let r = |i: usize| (le_u64(b, 8 + 16 * i), le_u64(b, 16 + 16 * i));
	Ok(PmHeader {
		root: r(0),
		meta: r(1),
		leaves: r(2),
		data: r(3),
		counts: [le_u64(b, 72), le_u64(b, 80), le_u64(b, 88)],
		clustered: b[96],
		icomp: b[97],
		tcomp: b[98],
		ttype: b[99],
		minz: b[100],
		maxz: b[101],
		bounds: [le_i32(b, 102), le_i32(b, 106), le_i32(b, 110), le_i32(b, 114)],
		center: (b[118], le_i32(b, 119), le_i32(b, 123)),
	})
}

/// `lenient_empty`: a tile entry with length 0 is recorded in `empties` + a warning instead of being an error
pub fn decode_pmtiles(b: &[u8], lenient_empty: bool) -> Result<Decoded, String> {
	let h = parse_pm_header(b)?;
	let flen = b.len() as u64;
	if h.root.0 < 127 || !inside(h.root.0, h.root.1, 127, 16384) {
		return Err("root directory not inside bytes 127..16384".into());
	}
	let secs = [("root", h.root), ("metadata", h.meta), ("leaf directories", h.leaves), ("tile data", h.data)];
	for (n, s) in secs {
		if s.1 > 0 && !inside(s.0, s.1, 127, flen) {
			return Err(format!("{n} section outside the file"));
		}
	}
	for i in 0..4 {
		for j in i + 1..4 {
			let (a, c) = (secs[i].1, secs[j].1);
			if a.1 > 0 && c.1 > 0 && a.0 < c.0 + c.1 && c.0 < a.0 + a.1 {
				return Err(format!("sections {} and {} overlap", secs[i].0, secs[j].0));
			}
		}
	}
	if h.clustered > 1 {
		return Err("clustered flag is not 0/1".into());
	}
	let icomp = Comp::from_pm_code(h.icomp).ok_or(format!("internal compression {} not decodable here", h.icomp))?;
	if h.tcomp > 4 || h.ttype > 5 {
		return Err("tile compression / tile type value out of range".into());
	}
	let mut d = Decoded { format: Fmt::from_pm_type(h.ttype), compression: Comp::from_pm_code(h.tcomp), ..Default::default() };
	// metadata: MUST be a JSON object
	let meta = decompress(icomp, &b[h.meta.0 as usize..(h.meta.0 + h.meta.1) as usize]).map_err(|e| format!("metadata: {e}"))?;
	match serde_json::from_slice::<serde_json::Value>(&meta) {
		Ok(v) if v.is_object() => {}
		_ => return Err("metadata is not a JSON object".into()),
	}
	d.meta = Some(meta);
	let leaves = &b[h.leaves.0 as usize..(h.leaves.0 + h.leaves.1) as usize];
	let root = decompress(icomp, &b[h.root.0 as usize..(h.root.0 + h.root.1) as usize]).map_err(|e| format!("root directory: {e}"))?;
	let mut tile_entries: Vec<PmEntry> = vec![];
	let mut n_dirs = 0u64;
	let mut max_depth = 0u64;
	// returns nothing; checks ordering: all ids of a directory lie in [lo, hi)
	fn walk(raw: &[u8], leaves: &[u8], icomp: Comp, depth: u64, lo: u64, hi: u64, out: &mut Vec<PmEntry>, n_dirs: &mut u64, max_depth: &mut u64, is_root: bool) -> Result<(), String> {
		if depth > 3 {
			return Err("more than 4 directory levels".into());
		}
		*n_dirs += 1;
		*max_depth = (*max_depth).max(depth);
		let es = parse_dir(raw)?;
		if es.is_empty() && !is_root {
			return Err("empty leaf directory".into());
		}
		for (i, e) in es.iter().enumerate() {
			let next = if i + 1 < es.len() { es[i + 1].id } else { hi };
			if e.id < lo || e.id >= hi {
				return Err("directory: tile id outside the range of its parent pointer".into());
			}
			if e.run == 0 {
				if e.len == 0 {
					return Err("leaf pointer with length 0".into());
				}
				if !inside(e.off, e.len, 0, leaves.len() as u64) {
					return Err("leaf pointer outside the leaf-directories section".into());
				}
				let sub = decompress(icomp, &leaves[e.off as usize..(e.off + e.len) as usize]).map_err(|x| format!("leaf directory: {x}"))?;
				walk(&sub, leaves, icomp, depth + 1, e.id, next, out, n_dirs, max_depth, false)?;
			} else {
				if e.id.checked_add(e.run).map_or(true, |end| end > next) {
					return Err("run overlaps the next entry".into());
				}
				out.push(*e);
			}
		}
		Ok(())
	}
	walk(&root, leaves, icomp, 0, 0, u64::MAX, &mut tile_entries, &mut n_dirs, &mut max_depth, true)?;
	let mut addressed = 0u64;
	let mut contents: BTreeSet<(u64, u64)> = BTreeSet::new();
	let mut prev_end: Option<u64> = None;
	let mut clustered_ok = true;
	for e in &tile_entries {
		if e.len == 0 {
			if !lenient_empty {
				return Err("tile entry with length 0".into());
			}
		} else if !inside(e.off, e.len, 0, h.data.1) {
			return Err("tile entry outside the tile-data section".into());
		}
		if let Some(pe) = prev_end {
			if !(e.off == pe || e.off < pe) {
				clustered_ok = false;
			}
		}
		prev_end = Some(prev_end.unwrap_or(0).max(e.off + e.len));
		addressed += e.run;
		contents.insert((e.off, e.len));
		for k in 0..e.run {
			let c = tile_coord(e.id + k).ok_or("tile id beyond zoom 31")?;
			if c.0 < h.minz || c.0 > h.maxz {
				return Err(format!("tile at zoom {} outside the header zoom range {}..{}", c.0, h.minz, h.maxz));
			}
			if e.len == 0 {
				d.empties.insert(c);
			} else {
				let s = (h.data.0 + e.off) as usize;
				d.tiles.insert(c, b[s..s + e.len as usize].to_vec());
			}
		}
	}
	if !d.empties.is_empty() {
		d.warnings.push("tile entries with length 0".into());
	}
	if h.clustered == 1 && !clustered_ok {
		d.warnings.push("clustered flag set but tile data is not in tile-id order".into());
	}
	for (name, have, want) in [("addressed tiles", h.counts[0], addressed), ("tile entries", h.counts[1], tile_entries.len() as u64), ("tile contents", h.counts[2], contents.len() as u64)] {
		// zero-length entries (only tolerated in lenient mode) have no content of their own: the contents count is then not judged
		if have != 0 && have != want && !(name == "tile contents" && !d.empties.is_empty()) {
			return Err(format!("header count of {name} is {have}, the directories give {want}"));
		}
	}
	if !(h.bounds[0] <= h.bounds[2] && h.bounds[1] <= h.bounds[3]) {
		d.warnings.push("header bounds min > max".into());
	}
	d.info.insert("dirs".into(), n_dirs);
	d.info.insert("depth".into(), max_depth + 1);
	d.info.insert("entries".into(), tile_entries.len() as u64);
	Ok(d)
}

// ---------------------------------------------------------------------------------------- MBTiles 1.3

#[derive(Clone, Debug)]
pub struct MbChoices {
	/// jpg | pbf | png | webp
	pub fmt: Fmt,
	/// `tiles` is a VIEW over `map` + `images`
	pub as_view: bool,
	pub with_index: bool,
	pub extra_meta: Vec<(String, String)>,
	pub shuffle_rows: bool,
}
pub type MbRow = (u8, u32, u32, Vec<u8>); // zoom_level, tile_column, tile_row (TMS), tile_data

pub fn tiles_to_rows(tiles: &TileMap) -> Vec<MbRow> {
	tiles.iter().map(|((z, x, y), p)| (*z, *x, ((1u64 << z) - 1 - *y as u64) as u32, p.clone())).collect()
}

/// schema freedoms of an MBTiles file beyond `MbChoices` (MBTiles 1.3 fixes the column names and types of `tiles`, not
/// how the table is implemented). Storage classes other than INTEGER / BLOB cannot occur in a conforming file: the
/// declared column types give integer affinity, SQLite converts '3' and 3.0 to the integer 3 on insert.
#[derive(Clone, Debug, Default)]
pub struct MbSchema {
	/// the tables are WITHOUT ROWID tables (primary key = coordinates / tile id): there is no `rowid` column
	pub without_rowid: bool,
	/// additional columns in `tiles` (table form) or in `map` / `images` and the view (view form)
	pub extra_columns: bool,
	/// upper-case type names and a different column order in the CREATE statements
	pub other_spelling: bool,
}
pub fn encode_mbtiles(path: &Path, rows: &[MbRow], ch: &MbChoices, rng: &mut Rng) -> Result<(), String> {
	encode_mbtiles_schema(path, rows, ch, &MbSchema::default(), rng)
}
pub fn encode_mbtiles_schema(path: &Path, rows: &[MbRow], ch: &MbChoices, sc: &MbSchema, rng: &mut Rng) -> Result<(), String> {
	let _ = std::fs::remove_file(path);
	let e = |x: rusqlite::Error| format!("sqlite: {x}");
	let mut conn = rusqlite::Connection::open(path).map_err(e)?;
	conn.execute_batch("CREATE TABLE metadata (name text, value text);").map_err(e)?;
	let (int, blob, text) = if sc.other_spelling { ("INTEGER", "BLOB", "TEXT") } else { ("integer", "blob", "text") };
	let wr = if sc.without_rowid { " WITHOUT ROWID" } else { "" };
	if ch.as_view {
		let (xm, xi, xv) = if sc.extra_columns { (format!(", grid_id {text}"), format!(", created {int}"), ", map.grid_id AS grid_id".to_string()) } else { (String::new(), String::new(), String::new()) };
		let (pk_map, pk_img) = if sc.without_rowid { (", PRIMARY KEY (zoom_level, tile_column, tile_row)".to_string(), format!("tile_id {text} PRIMARY KEY, tile_data {blob}")) } else { (String::new(), format!("tile_data {blob}, tile_id {text}")) };
		conn.execute_batch(&format!(
			"CREATE TABLE map (zoom_level {int}, tile_column {int}, tile_row {int}, tile_id {text}{xm}{pk_map}){wr};
			 CREATE TABLE images ({pk_img}{xi}){wr};
			 CREATE VIEW tiles AS SELECT map.zoom_level AS zoom_level, map.tile_column AS tile_column, map.tile_row AS tile_row, images.tile_data AS tile_data{xv} FROM map JOIN images ON images.tile_id = map.tile_id;"
		))
		.map_err(e)?;
		if ch.with_index && !sc.without_rowid {
			conn.execute_batch("CREATE UNIQUE INDEX map_index ON map (zoom_level, tile_column, tile_row); CREATE UNIQUE INDEX images_id ON images (tile_id);").map_err(e)?;
		}
	} else {
		let x = if sc.extra_columns { format!(", tile_hash {text}, updated {int} DEFAULT 0") } else { String::new() };
		let pk = if sc.without_rowid { ", PRIMARY KEY (zoom_level, tile_column, tile_row)" } else { "" };
		let cols = if sc.other_spelling { format!("tile_data {blob}, tile_row {int}, tile_column {int}, zoom_level {int}") } else { format!("zoom_level {int}, tile_column {int}, tile_row {int}, tile_data {blob}") };
		conn.execute_batch(&format!("CREATE TABLE tiles ({cols}{x}{pk}){wr};")).map_err(e)?;
		if ch.with_index && !sc.without_rowid {
			conn.execute_batch("CREATE UNIQUE INDEX tile_index ON tiles (zoom_level, tile_column, tile_row);").map_err(e)?;
		}
	}
	let mut order: Vec<usize> = (0..rows.len()).collect();
	if ch.shuffle_rows {
		shuffle(&mut order, rng);
	}
	let tx = conn.transaction().map_err(e)?;
	tx.execute("INSERT INTO metadata (name, value) VALUES ('name', 'indep')", []).map_err(e)?;
	tx.execute("INSERT INTO metadata (name, value) VALUES ('format', ?1)", [ch.fmt.name()]).map_err(e)?;
	for (k, v) in &ch.extra_meta {
		tx.execute("INSERT INTO metadata (name, value) VALUES (?1, ?2)", [k, v]).map_err(e)?;
	}
	let mut ids: BTreeMap<&Vec<u8>, String> = BTreeMap::new();
	for i in order {
		let (z, c, r, d) = &rows[i];
		if ch.as_view {
			let n = ids.len();
			let id = match ids.get(d) {
				Some(id) => id.clone(),
				None => {
					let id = format!("img{n}");
					tx.execute("INSERT INTO images (tile_data, tile_id) VALUES (?1, ?2)", rusqlite::params![d, id]).map_err(e)?;
					ids.insert(d, id.clone());
					id
				}
			};
			tx.execute("INSERT INTO map (zoom_level, tile_column, tile_row, tile_id) VALUES (?1, ?2, ?3, ?4)", rusqlite::params![z, c, r, id]).map_err(e)?;
		} else {
			tx.execute("INSERT INTO tiles (zoom_level, tile_column, tile_row, tile_data) VALUES (?1, ?2, ?3, ?4)", rusqlite::params![z, c, r, d]).map_err(e)?;
		}
	}
	tx.commit().map_err(e)?;
	conn.close().map_err(|x| format!("sqlite close: {}", x.1))?;
	Ok(())
}

/// all rows of `tiles`, sorted by (zoom_level, tile_column, tile_row)
pub fn read_mbtiles_rows(path: &Path) -> Result<Vec<MbRow>, String> {
	let e = |x: rusqlite::Error| format!("sqlite: {x}");
	let conn = rusqlite::Connection::open_with_flags(path, rusqlite::OpenFlags::SQLITE_OPEN_READ_ONLY).map_err(e)?;
	let mut st = conn.prepare("SELECT zoom_level, tile_column, tile_row, tile_data FROM tiles").map_err(e)?;
	let it = st.query_map([], |r| Ok((r.get::<_, i64>(0)?, r.get::<_, i64>(1)?, r.get::<_, i64>(2)?, r.get::<_, Option<Vec<u8>>>(3)?))).map_err(e)?;
	let mut rows = vec![];
	for r in it {
		let (z, c, w, d) = r.map_err(e)?;
		if !(0..=31).contains(&z) {
			return Err(format!("zoom_level {z} outside 0..31"));
		}
		let n = 1i64 << z;
		if c < 0 || c >= n || w < 0 || w >= n {
			return Err(format!("tile_column/tile_row ({c},{w}) outside level {z}"));
		}
		rows.push((z as u8, c as u32, w as u32, d.ok_or("tile_data is NULL")?));
	}
	rows.sort();
	Ok(rows)
}
pub fn read_mbtiles_meta(path: &Path) -> Result<Vec<(String, String)>, String> {
	let e = |x: rusqlite::Error| format!("sqlite: {x}");
	let conn = rusqlite::Connection::open_with_flags(path, rusqlite::OpenFlags::SQLITE_OPEN_READ_ONLY).map_err(e)?;
	let mut st = conn.prepare("SELECT name, value FROM metadata").map_err(e)?;
	let it = st.query_map([], |r| Ok((r.get::<_, String>(0)?, r.get::<_, String>(1)?))).map_err(e)?;
	let mut v = vec![];
	for r in it {
		v.push(r.map_err(e)?);
	}
	Ok(v)
}

pub fn decode_mbtiles(path: &Path) -> Result<Decoded, String> {
	let meta = read_mbtiles_meta(path)?;
	let mut d = Decoded::default();
	let mut names = BTreeSet::new();
	for (k, _) in &meta {
		if !names.insert(k.clone()) {
			return Err(format!("metadata name {k} occurs twice"));
		}
	}
	let format = meta.iter().find(|(k, _)| k == "format").ok_or("metadata has no `format` row")?.1.clone();
	let (f, c) = match format.as_str() {
		"pbf" => (Fmt::Pbf, Comp::Gzip),
		"jpg" => (Fmt::Jpg, Comp::None),
		"png" => (Fmt::Png, Comp::None),
		"webp" => (Fmt::Webp, Comp::None),
		o => return Err(format!("metadata format `{o}` is not one of pbf/jpg/png/webp")),
	};
	d.format = Some(f);
	d.compression = Some(c);
	if !names.contains("name") {
		d.warnings.push("metadata has no `name` row (MUST in MBTiles 1.3)".into());
	}
	for k in ["bounds", "minzoom", "maxzoom"] {
		if !names.contains(k) {
			d.warnings.push(format!("metadata has no `{k}` row (SHOULD)"));
		}
	}
	let rows = read_mbtiles_rows(path)?;
	for (z, c, r, data) in rows {
		let y = ((1u64 << z) - 1 - r as u64) as u32;
		if d.tiles.contains_key(&(z, c, y)) || d.empties.contains(&(z, c, y)) {
			return Err(format!("duplicate row ({z},{c},{r})"));
		}
		if data.is_empty() {
			d.empties.insert((z, c, y));
		} else {
			d.tiles.insert((z, c, y), data);
		}
	}
	for (k, want) in [("minzoom", d.tiles.keys().map(|k| k.0).min()), ("maxzoom", d.tiles.keys().map(|k| k.0).max())] {
		if let (Some((_, v)), Some(w)) = (meta.iter().find(|(n, _)| n == k), want) {
			if v.parse::<u8>().ok() != Some(w) && d.empties.is_empty() {
				d.warnings.push(format!("metadata {k}={v} but the tiles give {w}"));
			}
		}
	}
	d.meta = meta.iter().find(|(k, _)| k == "json").map(|(_, v)| v.clone().into_bytes());
	Ok(d)
}

// ----------------------------------------------------------------------------------------------- tar

#[derive(Clone, Debug)]
pub struct TarMember {
	pub name: Vec<u8>,
	pub data: Vec<u8>,
	/// b'0' regular file, b'5' directory, b'1' hard link / b'2' symbolic link (then `data` is the link name, size 0)
	pub typeflag: u8,
	/// put the leading path components into the ustar `prefix` field (split at a '/')
	pub use_prefix: bool,
}
impl TarMember {
	pub fn file(name: &str, data: &[u8]) -> TarMember {
		TarMember { name: name.as_bytes().to_vec(), data: data.to_vec(), typeflag: b'0', use_prefix: false }
	}
}

fn octal(field: &mut [u8], v: u64) {
	let s = format!("{:0w$o}", v, w = field.len() - 1);
	field[..s.len()].copy_from_slice(s.as_bytes());
	field[s.len()] = 0;
}

/// one 512-byte ustar header; Err if the name cannot be stored
pub fn ustar_header(m: &TarMember) -> Result<[u8; 512], String> {
	let mut h = [0u8; 512];
	let (prefix, name): (&[u8], &[u8]) = if m.use_prefix || m.name.len() > 100 {
		// split at a '/' such that name ≤ 100 and prefix ≤ 155 (prefer the right-most possible split)
		let mut cut = None;
		for (i, c) in m.name.iter().enumerate() {
			if *c == b'/' && i > 0 && i <= 155 && m.name.len() - i - 1 <= 100 && m.name.len() - i - 1 > 0 {
				cut = Some(i);
				if m.use_prefix && m.name.len() <= 100 {
					break; // short names: split at the first separator
				}
			}
		}
		match cut {
			Some(i) => (&m.name[..i], &m.name[i + 1..]),
			None if m.name.len() <= 100 => (&[], &m.name[..]),
			None => return Err("name does not fit into a ustar header".into()),
		}
	} else {
		(&[], &m.name[..])
	};
	if name.contains(&0) || prefix.contains(&0) {
		return Err("NUL in name".into());
	}
	h[..name.len()].copy_from_slice(name);
	octal(&mut h[100..108], if m.typeflag == b'5' { 0o755 } else { 0o644 });
	octal(&mut h[108..116], 0);
	octal(&mut h[116..124], 0);
	let is_link = m.typeflag == b'1' || m.typeflag == b'2';
	octal(&mut h[124..136], if m.typeflag == b'5' || is_link { 0 } else { m.data.len() as u64 });
	if is_link {
		if m.data.len() > 100 || m.data.contains(&0) {
			return Err("link name does not fit into a ustar header".into());
		}
		h[157..157 + m.data.len()].copy_from_slice(&m.data);
	}
	octal(&mut h[136..148], 1_700_000_000);
	h[156] = m.typeflag;
	h[257..263].copy_from_slice(b"ustar\0");
	h[263..265].copy_from_slice(b"00");
	h[265..269].copy_from_slice(b"root");
	h[297..301].copy_from_slice(b"root");
	octal(&mut h[329..337], 0);
	octal(&mut h[337..345], 0);
	h[345..345 + prefix.len()].copy_from_slice(prefix);
	for b in &mut h[148..156] {
		*b = b' ';
	}
	let sum: u32 = h.iter().map(|b| *b as u32).sum();
	let s = format!("{sum:06o}");
	h[148..154].copy_from_slice(s.as_bytes());
	h[154] = 0;
	h[155] = b' ';
	Ok(h)
}

pub fn encode_tar(members: &[TarMember], extra_zero_blocks: usize) -> Result<Vec<u8>, String> {
	let mut out = vec![];
	for m in members {
		out.extend_from_slice(&ustar_header(m)?);
		if m.typeflag != b'5' && m.typeflag != b'1' && m.typeflag != b'2' {
			out.extend_from_slice(&m.data);
			let pad = (512 - m.data.len() % 512) % 512;
			out.extend(std::iter::repeat(0u8).take(pad));
		}
	}
	out.extend(std::iter::repeat(0u8).take(512 * (2 + extra_zero_blocks)));
	Ok(out)
}

#[derive(Clone, Debug)]
pub struct TarEntry {
	pub name: Vec<u8>,
	pub typeflag: u8,
	pub data: Vec<u8>,
}

fn parse_octal(f: &[u8]) -> Result<u64, String> {
	if !f.is_empty() && f[0] & 0x80 != 0 {
		// base-256
		let mut v: u64 = (f[0] & 0x7f) as u64;
		for b in &f[1..] {
			v = v.checked_mul(256).ok_or("numeric field overflow")? + *b as u64;
		}
		return Ok(v);
	}
	let mut v: u64 = 0;
	let mut seen = false;
	for b in f {
		match b {
			b'0'..=b'7' => {
				v = v.checked_mul(8).ok_or("numeric field overflow")? + (*b - b'0') as u64;
				seen = true;
			}
			b' ' if !seen => {}
			b' ' | 0 => break,
			_ => return Err("bad octal digit".into()),
		}
	}
	Ok(v)
}
fn cstr(f: &[u8]) -> &[u8] {
	&f[..f.iter().position(|b| *b == 0).unwrap_or(f.len())]
}

/// strict ustar / GNU tar parser (checksum, magic, sizes, end-of-archive marker)
pub fn parse_tar(b: &[u8]) -> Result<Vec<TarEntry>, String> {
	if b.len() % 512 != 0 {
		return Err("archive length is not a multiple of 512".into());
	}
	let mut pos = 0usize;
	let mut out = vec![];
	let mut long_name: Option<Vec<u8>> = None;
	loop {
		if pos + 512 > b.len() {
			return Err("no end-of-archive marker (two zero blocks)".into());
		}
		let h = &b[pos..pos + 512];
		if h.iter().all(|x| *x == 0) {
			if b[pos..].len() < 1024 || !b[pos..].iter().all(|x| *x == 0) {
				return Err("end-of-archive marker is not two zero blocks followed by zeros only".into());
			}
			return Ok(out);
		}
		let stored = parse_octal(&h[148..156])?;
		let sum: u64 = h.iter().enumerate().map(|(i, x)| if (148..156).contains(&i) { 32 } else { *x as u64 }).sum();
		if sum != stored {
			return Err(format!("header checksum mismatch at {pos}"));
		}
		let posix = &h[257..263] == b"ustar\0" && &h[263..265] == b"00";
		let gnu = &h[257..265] == b"ustar  \0";
		if !posix && !gnu {
			return Err("header is neither ustar nor GNU".into());
		}
		let size = parse_octal(&h[124..136])? as usize;
		let typeflag = h[156];
		let mut name = cstr(&h[0..100]).to_vec();
		if posix {
			let p = cstr(&h[345..500]);
			if !p.is_empty() {
				let mut n = p.to_vec();
				n.push(b'/');
				n.extend_from_slice(&name);
				name = n;
			}
		}
		let has_data = !matches!(typeflag, b'1' | b'2' | b'3' | b'4' | b'5' | b'6');
		let dlen = if has_data { size } else { 0 };
		let dstart = pos + 512;
		if dstart + dlen > b.len() {
			return Err("member data exceeds the archive".into());
		}
		let data = b[dstart..dstart + dlen].to_vec();
		pos = dstart + (dlen + 511) / 512 * 512;
		match typeflag {
			b'L' => {
				long_name = Some(cstr(&data).to_vec());
			}
			b'x' => {
				// pax: records "<len> key=value\n"
				let mut p = 0;
				while p < data.len() {
					let sp = data[p..].iter().position(|c| *c == b' ').ok_or("pax record")? + p;
					let l: usize = std::str::from_utf8(&data[p..sp]).ok().and_then(|s| s.parse().ok()).ok_or("pax length")?;
					if l == 0 || p + l > data.len() {
						return Err("pax record length".into());
					}
					let rec = &data[sp + 1..p + l - 1];
					if let Some(v) = rec.strip_prefix(b"path=") {
						long_name = Some(v.to_vec());
					}
					p += l;
				}
			}
			b'g' | b'K' => {}
			_ => {
				if let Some(n) = long_name.take() {
					name = n;
				}
				out.push(TarEntry { name, typeflag, data });
			}
		}
	}
}

#[derive(Clone, Debug, PartialEq, Eq)]
pub enum NameClass {
	Tile(Coord, Fmt, Comp),
	Meta(Comp),
	Other,
}
/// classification of a member / file name `[./]<z>/<x>/<y>.<fmt>[.gz|.br]` or a root-level metadata file.
/// Canonical decimal numbers only; the format extension is matched case-insensitively, `.jpeg` = jpg.
pub fn classify_name(name: &str) -> NameClass {
	let n = name.strip_prefix("./").unwrap_or(name);
	let parts: Vec<&str> = n.split('/').collect();
	let split_comp = |s: &str| -> (String, Comp) {
		if let Some(r) = s.strip_suffix(".gz") {
			(r.to_string(), Comp::Gzip)
		} else if let Some(r) = s.strip_suffix(".br") {
			(r.to_string(), Comp::Brotli)
		} else {
			(s.to_string(), Comp::None)
		}
	};
	let num = |s: &str| -> Option<u64> {
		if s.is_empty() || s.len() > 10 || !s.bytes().all(|c| c.is_ascii_digit()) || (s.len() > 1 && s.starts_with('0')) {
			return None;
		}
		s.parse().ok()
	};
	if parts.len() == 1 {
		let (base, c) = split_comp(parts[0]);
		if matches!(base.as_str(), "tiles.json" | "meta.json" | "metadata.json") {
			return NameClass::Meta(c);
		}
		return NameClass::Other;
	}
	if parts.len() != 3 {
		return NameClass::Other;
	}
	let (base, c) = split_comp(parts[2]);
	let Some(dot) = base.rfind('.') else { return NameClass::Other };
	let ext = base[dot + 1..].to_ascii_lowercase();
	let f = match ext.as_str() {
		"jpeg" => Some(Fmt::Jpg),
		e => Fmt::from_name(e),
	};
	match (num(parts[0]), num(parts[1]), num(&base[..dot]), f) {
		(Some(z), Some(x), Some(y), Some(f)) if z <= 31 && x < (1u64 << z) && y < (1u64 << z) => NameClass::Tile((z as u8, x as u32, y as u32), f, c),
		_ => NameClass::Other,
	}
}

fn collect_named(files: Vec<(String, Vec<u8>)>, strict_other: bool) -> Result<Decoded, String> {
	let mut d = Decoded::default();
	for (name, data) in files {
		match classify_name(&name) {
			NameClass::Tile(c, f, k) => {
				if d.format.map_or(false, |x| x != f) || d.compression.map_or(false, |x| x != k) {
					return Err(format!("mixed tile formats / compressions ({name})"));
				}
				d.format = Some(f);
				d.compression = Some(k);
				if d.tiles.contains_key(&c) || d.empties.contains(&c) {
					return Err(format!("coordinate stored twice ({name})"));
				}
				if data.is_empty() {
					d.empties.insert(c);
				} else {
					d.tiles.insert(c, data);
				}
			}
			NameClass::Meta(k) => {
				let m = decompress(k, &data).map_err(|e| format!("{name}: {e}"))?;
				if serde_json::from_slice::<serde_json::Value>(&m).is_err() {
					d.warnings.push(format!("{name} is not JSON"));
				}
				d.meta = Some(m);
			}
			NameClass::Other => {
				if strict_other {
					return Err(format!("unexpected member {name:?}"));
				}
			}
		}
	}
	if let (Some(m), Some(c)) = (&d.meta, d.compression) {
		let _ = (m, c);
	}
	Ok(d)
}

pub fn decode_tar(b: &[u8]) -> Result<Decoded, String> {
	let es = parse_tar(b)?;
	let mut files = vec![];
	let mut n_dirs = 0;
	let mut n_links = 0;
	for e in es {
		match e.typeflag {
			b'0' | 0 => files.push((String::from_utf8(e.name).map_err(|_| "member name is not UTF-8")?, e.data)),
			b'5' => n_dirs += 1,
			// link members: the decoder does not resolve them (counted; the harness states what it expects of a reader)
			b'1' | b'2' => n_links += 1,
			t => return Err(format!("unexpected member type {t}")),
		}
	}
	let mut d = collect_named(files, true)?;
	d.info.insert("dir_members".into(), n_dirs);
	d.info.insert("link_members".into(), n_links);
	Ok(d)
}

// ----------------------------------------------------------------------------------------- directory

pub fn write_dir(root: &Path, files: &[(String, Vec<u8>)]) -> Result<(), String> {
	std::fs::create_dir_all(root).map_err(|e| e.to_string())?;
	for (name, data) in files {
		let p = root.join(name);
		std::fs::create_dir_all(p.parent().unwrap()).map_err(|e| e.to_string())?;
		std::fs::write(&p, data).map_err(|e| e.to_string())?;
	}
	Ok(())
}
/// file-system freedoms of a tile directory: here the "encoder" is the file system. Everything below is a tree that
/// `cp -rL` / `cat <root>/<z>/<x>/<y>.<ext>` would see exactly like the plain tree – links behave like their targets.
#[derive(Clone, Debug, Default)]
pub struct FsLayout {
	/// tile files: 0 plain, 1 relative symlink, 2 absolute symlink, 3 chain of two symlinks, 4 hard link
	pub file_link: u8,
	/// which tile files are linked: 1 = every other one, 2 = all
	pub file_share: u8,
	/// one x directory is a symlink into the store: 0 no, 1 relative target, 2 absolute target
	pub x_link: u8,
	/// one z directory is a symlink into the store: 0 no, 1 relative target, 2 absolute target
	pub z_link: u8,
	/// extra empty directories (an unused zoom level, an unused column, a non-numeric name)
	pub empty_dirs: bool,
	/// non-tile files next to tiles in z and x directories (README, .DS_Store, tiles.json, Thumbs.db, a sub directory)
	pub deep_strays: bool,
	/// 0 canonical numbers, 1 leading zeros in z, x and y, 2 a y name with 200 leading zeros
	pub digits: u8,
	/// 0 none, 1 a regular file with a numeric name inside a z directory, 2 a regular file with a numeric name in the root
	pub wrong_kind: u8,
}
impl FsLayout {
	pub fn is_plain(&self) -> bool {
		self.file_link == 0 && self.x_link == 0 && self.z_link == 0 && !self.empty_dirs && !self.deep_strays && self.digits == 0 && self.wrong_kind == 0
	}
	pub fn has_links(&self) -> bool {
		self.file_link != 0 || self.x_link != 0 || self.z_link != 0
	}
}
pub fn store_of(root: &Path) -> std::path::PathBuf {
	root.parent().unwrap().join(format!("{}.store", root.file_name().unwrap().to_string_lossy()))
}
/// write `files` (relative names, tiles as z/x/y.ext) below `root` using the freedoms of `lay`; linked material lives in
/// the sibling directory `store_of(root)`. Returns the logical listing (name as a link-following walk sees it, content).
pub fn write_dir_fs(root: &Path, files: &[(String, Vec<u8>)], lay: &FsLayout) -> Result<Vec<(String, Vec<u8>)>, String> {
	use std::os::unix::fs::symlink;
	let es = |e: std::io::Error| e.to_string();
	std::fs::create_dir_all(root).map_err(es)?;
	let store = store_of(root);
	let store_name = store.file_name().unwrap().to_string_lossy().to_string();
	if lay.has_links() {
		std::fs::create_dir_all(&store).map_err(es)?;
	}
	// logical names
	let mut listed: Vec<(String, Vec<u8>)> = vec![];
	for (name, data) in files {
		let parts: Vec<&str> = name.split('/').collect();
		let is_tile = parts.len() == 3 && parts[0].bytes().all(|c| c.is_ascii_digit()) && parts[1].bytes().all(|c| c.is_ascii_digit());
		if is_tile && lay.digits != 0 {
			let (y, ext) = parts[2].split_at(parts[2].find('.').unwrap_or(parts[2].len()));
			let n = match lay.digits {
				1 => format!("0{}/00{}/0{}{}", parts[0], parts[1], y, ext),
				_ => format!("{}/{}/{}{}{}", parts[0], parts[1], "0".repeat(200), y, ext),
			};
			listed.push((n, data.clone()));
		} else {
			listed.push((name.clone(), data.clone()));
		}
	}
	let tiles: Vec<usize> = listed.iter().enumerate().filter(|(_, (n, _))| n.split('/').count() == 3).map(|(i, _)| i).collect();
	let zx: Vec<(String, String)> = tiles.iter().map(|i| { let mut p = listed[*i].0.split('/'); (p.next().unwrap().to_string(), p.next().unwrap().to_string()) }).collect();
	let first: Option<(String, String)> = zx.first().cloned();
	let z_linked: Option<String> = if lay.z_link != 0 { first.as_ref().map(|f| f.0.clone()) } else { None };
	let x_linked: Option<(String, String)> = if lay.x_link != 0 { zx.last().cloned().filter(|(z, _)| Some(z) != z_linked.as_ref()) } else { None };
	let used_z: BTreeSet<u8> = zx.iter().filter_map(|(z, _)| z.parse::<u8>().ok()).collect();
	let free_z: Option<String> = (0..=31u8).rev().find(|z| !used_z.contains(z)).map(|z| z.to_string());
	if lay.deep_strays {
		if let Some((z, x)) = &first {
			listed.push((format!("{z}/README.txt"), b"readme".to_vec()));
			listed.push((format!("{z}/{x}/.DS_Store"), vec![0, 0, 0, 1]));
			listed.push((format!("{z}/{x}/tiles.json"), b"{}".to_vec()));
			listed.push((format!("{z}/{x}/README"), b"x".to_vec()));
			listed.push((format!("{z}/{x}/Thumbs.db"), vec![9]));
			listed.push((format!("{z}/{x}/sub/1.txt"), vec![1]));
			listed.push(("Tiles.JSON".into(), b"{\"name\":\"not me\"}".to_vec()));
		}
	}
	match (lay.wrong_kind, &first, &free_z) {
		(1, Some((z, _)), _) => listed.push((format!("{z}/4294967294"), b"not a directory".to_vec())),
		(2, _, Some(z)) => listed.push((z.clone(), b"not a directory".to_vec())),
		_ => {}
	}
	// physical tree
	let mut made_z = false;
	let mut made_x = false;
	for (i, (name, data)) in listed.iter().enumerate() {
		let parts: Vec<&str> = name.split('/').collect();
		let in_z = parts.len() >= 2 && Some(parts[0].to_string()) == z_linked;
		let in_x = parts.len() >= 3 && Some((parts[0].to_string(), parts[1].to_string())) == x_linked;
		let phys = if in_z {
			if !made_z {
				made_z = true;
				std::fs::create_dir_all(store.join("zdir")).map_err(es)?;
				let target = if lay.z_link == 1 { std::path::PathBuf::from(format!("../{store_name}/zdir")) } else { store.join("zdir") };
				symlink(target, root.join(parts[0])).map_err(es)?;
			}
			store.join("zdir").join(parts[1..].join("/"))
		} else if in_x {
			if !made_x {
				made_x = true;
				std::fs::create_dir_all(store.join("xdir")).map_err(es)?;
				std::fs::create_dir_all(root.join(parts[0])).map_err(es)?;
				let target = if lay.x_link == 1 { std::path::PathBuf::from(format!("../../{store_name}/xdir")) } else { store.join("xdir") };
				symlink(target, root.join(parts[0]).join(parts[1])).map_err(es)?;
			}
			store.join("xdir").join(parts[2..].join("/"))
		} else {
			root.join(name)
		};
		std::fs::create_dir_all(phys.parent().unwrap()).map_err(es)?;
		let linkable = parts.len() == 3 && !in_z && !in_x && tiles.contains(&i) && lay.file_link != 0 && (lay.file_share == 2 || i % 2 == 0);
		if !linkable {
			std::fs::write(&phys, data).map_err(es)?;
			continue;
		}
		let f = store.join(format!("f{i}"));
		std::fs::write(&f, data).map_err(es)?;
		match lay.file_link {
			1 => symlink(format!("../../../{store_name}/f{i}"), &phys).map_err(es)?,
			2 => symlink(&f, &phys).map_err(es)?,
			3 => {
				symlink(format!("f{i}"), store.join(format!("l{i}"))).map_err(es)?;
				symlink(store.join(format!("l{i}")), &phys).map_err(es)?;
			}
			_ => std::fs::hard_link(&f, &phys).map_err(es)?,
		}
	}
	if lay.empty_dirs {
		if let Some(z) = &free_z {
			if lay.wrong_kind != 2 {
				std::fs::create_dir_all(root.join(z)).map_err(es)?;
			}
		}
		std::fs::create_dir_all(root.join("tmp")).map_err(es)?;
		if let Some((z, _)) = &first {
			if z_linked.is_none() {
				std::fs::create_dir_all(root.join(z).join("4294967295")).map_err(es)?;
				std::fs::create_dir_all(root.join(z).join("lost+found")).map_err(es)?;
			}
		}
	}
	Ok(listed)
}
/// all regular files below root as (relative name with '/', content), sorted by name
pub fn list_dir(root: &Path) -> Result<Vec<(String, Vec<u8>)>, String> {
	fn rec(dir: &Path, rel: &str, out: &mut Vec<(String, Vec<u8>)>) -> Result<(), String> {
		for e in std::fs::read_dir(dir).map_err(|e| e.to_string())? {
			let e = e.map_err(|e| e.to_string())?;
			let name = e.file_name().into_string().map_err(|_| "file name is not UTF-8")?;
			let r = if rel.is_empty() { name.clone() } else { format!("{rel}/{name}") };
			// links behave like their targets (`metadata` follows symbolic links, `DirEntry::file_type` would not)
			let ft = std::fs::metadata(e.path()).map_err(|e| format!("{r}: {e}"))?.file_type();
			if ft.is_dir() {
				rec(&e.path(), &r, out)?;
			} else if ft.is_file() {
				out.push((r, std::fs::read(e.path()).map_err(|e| e.to_string())?));
			} else {
				return Err(format!("{r} is neither file nor directory"));
			}
		}
		Ok(())
	}
	let mut out = vec![];
	rec(root, "", &mut out)?;
	out.sort();
	Ok(out)
}
pub fn decode_dir(root: &Path) -> Result<Decoded, String> {
	collect_named(list_dir(root)?, true)
}
