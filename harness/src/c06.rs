//! C06 – conversion selects and relocates tiles exactly as the options say.
//!
//! Real code driven: `TilesConvertReader` (coverage / `get_tile_data` / `get_bbox_tile_stream`) over an
//! in-memory source whose payload is its own source coordinate, `convert_tiles_container` into every
//! container format (output re-opened with the real readers), the option handling of `versatiles
//! convert` (in-process transcription of `get_bbox_pyramid`, tied to the real binary by running
//! `$VTH_BIN convert` with the same flags), `versatiles serve --flip-y --swap-xy` with three tile sources over raw HTTP (both tiers).
//!
//! case lines (stream `C06`, coordinates are `x,y,z`, pyramids 32 boxes `z:x0,y0,x1,y1` joined by `/`):
//!   C06 pyr <minz|-> <maxz|-> <w,s,e,n as f64 bit patterns|-> <border|->  → none | pyramid | err | panic
//!   C06 cover <fs> <req|-> <srccover>                                      → pyramid | panic
//!   C06 look <fs> <tiles> <x,y,z>                                          → none | <source coord> | err | panic
//!   C06 stream <fs> <tiles> <box>                                          → sorted `out=src;…` | - | panic
//!   C06 walk <fs> <req|-> <srccover> <tiles>                               → <cover>|<sorted tiles>
//!   C06 fault <fs> <req|-> <srccover> <tiles> <victim|*> <probe>           → walk=<panic|err|tiles> look=<err|…>  (undecodable source tile + transcode)
//!   C06 rstream <fs> <req> <srccover> <tiles> <box>                        → stream of the RESTRICTED converter over a box reaching beyond the restriction
//!   C06 serve <fs> <tilesA> <tilesB>   (oracle only) `versatiles serve <flags> [a1]A [b]B [a2]A` vs `versatiles convert <flags>`
//! `fs` = flip,swap as two bits ("10" = flip only).
use crate::common::*;
use crate::memsrc::MemSource;
use serde_json::json;
use std::collections::{BTreeMap, BTreeSet};
use std::io::{Read, Write};
use std::path::{Path, PathBuf};
use std::process::{Child, Command, Stdio};
use versatiles_container::{convert_tiles_container, get_reader, TilesConvertReader, TilesConverterParameters};
use versatiles_core::types::*;
use versatiles_core::utils::{compress, decompress};

pub type C = (u32, u32, u8); // x, y, z
pub type B = Option<(u32, u32, u32, u32)>; // normalised box: None = empty

// ---------------------------------------------------------------------------------------------
// rendering shared with c03
// ---------------------------------------------------------------------------------------------
pub fn box_str(b: &TileBBox) -> String {
	format!("{}:{},{},{},{}", b.level, b.x_min, b.y_min, b.x_max, b.y_max)
}
pub fn pyr_str(p: &TileBBoxPyramid) -> String {
	p.level_bbox.iter().map(box_str).collect::<Vec<_>>().join("/")
}
pub fn norm(b: &TileBBox) -> B {
	if b.x_max < b.x_min || b.y_max < b.y_min {
		None
	} else {
		Some((b.x_min, b.y_min, b.x_max, b.y_max))
	}
}
pub fn norm_pyr(p: &TileBBoxPyramid) -> Vec<B> {
	p.level_bbox.iter().map(norm).collect()
}
pub fn coord_str(c: &C) -> String {
	format!("{},{},{}", c.0, c.1, c.2)
}
pub fn tiles_str(t: &[C]) -> String {
	if t.is_empty() {
		"-".into()
	} else {
		t.iter().map(coord_str).collect::<Vec<_>>().join(";")
	}
}
fn parse_coord(s: &str) -> C {
	let p: Vec<&str> = s.split(',').collect();
	(p[0].parse().unwrap(), p[1].parse().unwrap(), p[2].parse().unwrap())
}
fn parse_tiles(s: &str) -> Vec<C> {
	if s == "-" {
		vec![]
	} else {
		s.split(';').map(parse_coord).collect()
	}
}
pub fn parse_box(s: &str) -> TileBBox {
	let (l, r) = s.split_once(':').unwrap();
	let v: Vec<u32> = r.split(',').map(|x| x.parse().unwrap()).collect();
	let level: u8 = l.parse().unwrap();
	let mut b = TileBBox::new_empty(level).unwrap();
	b.x_min = v[0];
	b.y_min = v[1];
	b.x_max = v[2];
	b.y_max = v[3];
	b
}
pub fn parse_pyr(s: &str) -> TileBBoxPyramid {
	let mut p = TileBBoxPyramid::new_empty();
	for (i, t) in s.split('/').enumerate() {
		p.level_bbox[i] = parse_box(t);
	}
	p
}
fn in_b(b: &B, x: u32, y: u32) -> bool {
	matches!(b, Some((x0, y0, x1, y1)) if x >= *x0 && x <= *x1 && y >= *y0 && y <= *y1)
}
fn isect(a: &B, b: &B) -> B {
	match (a, b) {
		(Some(a), Some(b)) => {
			let r = (a.0.max(b.0), a.1.max(b.1), a.2.min(b.2), a.3.min(b.3));
			if r.0 > r.2 || r.1 > r.3 {
				None
			} else {
				Some(r)
			}
		}
		_ => None,
	}
}

// ---------------------------------------------------------------------------------------------
// the transform, written from the property statement (flip: y -> 2^z-1-y first, then swap x<->y)
// ---------------------------------------------------------------------------------------------
pub fn t_fwd(f: bool, s: bool, c: C) -> C {
	let (mut x, mut y, z) = c;
	if f {
		y = ((1u64 << z) - 1 - y as u64) as u32;
	}
	if s {
		std::mem::swap(&mut x, &mut y);
	}
	(x, y, z)
}
fn t_box(f: bool, s: bool, z: u8, b: &B) -> B {
	let m = ((1u64 << z) - 1) as u32;
	b.map(|(x0, y0, x1, y1)| {
		let (x0, y0, x1, y1) = if f { (x0, m - y1, x1, m - y0) } else { (x0, y0, x1, y1) };
		if s {
			(y0, x0, y1, x1)
		} else {
			(x0, y0, x1, y1)
		}
	})
}
fn fs_str(f: bool, s: bool) -> String {
	format!("{}{}", f as u8, s as u8)
}

// ---------------------------------------------------------------------------------------------
// options of `versatiles convert`
// ---------------------------------------------------------------------------------------------
#[derive(Clone, Debug, Default)]
pub struct Opts {
	pub min_zoom: Option<u8>,
	pub max_zoom: Option<u8>,
	pub bbox: Option<[f64; 4]>,
	pub border: Option<u32>,
}
impl Opts {
	fn case(&self) -> String {
		let o = |v: Option<u64>| v.map_or("-".to_string(), |x| x.to_string());
		let g = self.bbox.map_or("-".to_string(), |b| b.iter().map(|v| v.to_bits().to_string()).collect::<Vec<_>>().join(","));
		format!("C06 pyr {} {} {} {}", o(self.min_zoom.map(|x| x as u64)), o(self.max_zoom.map(|x| x as u64)), g, o(self.border.map(|x| x as u64)))
	}
	fn cli(&self) -> Vec<String> {
		let mut v = vec![];
		if let Some(z) = self.min_zoom {
			v.push(format!("--min-zoom={z}"));
		}
		if let Some(z) = self.max_zoom {
			v.push(format!("--max-zoom={z}"));
		}
		if let Some(b) = self.bbox {
			v.push(format!("--bbox={},{},{},{}", b[0], b[1], b[2], b[3]));
		}
		if let Some(b) = self.border {
			v.push(format!("--bbox-border={b}"));
		}
		v
	}
}

/// Transcription of `get_bbox_pyramid` (versatiles/src/tools/convert.rs:85-120; private to the binary
/// crate) onto the real public API; tied to the binary by `binary_cases`.
pub fn get_bbox_pyramid_t(o: &Opts) -> anyhow::Result<Option<TileBBoxPyramid>> {
	if o.min_zoom.is_none() && o.max_zoom.is_none() && o.bbox.is_none() {
		return Ok(None);
	}
	let mut p = TileBBoxPyramid::new_full(32);
	if let Some(z) = o.min_zoom {
		p.set_zoom_min(z)
	}
	if let Some(z) = o.max_zoom {
		p.set_zoom_max(z)
	}
	if let Some(b) = o.bbox {
		let g = GeoBBox::try_from(b.to_vec())?;
		g.check()?;
		p.intersect_geo_bbox(&g);
		if let Some(b) = o.border {
			p.add_border(b, b, b, b);
		}
	}
	Ok(Some(p))
}

/// Independent geographic reference: tile-unit position of lon/lat in the usual slippy-map form
/// (asinh(tan φ) instead of the code's ln(tan(π/4+φ/2))).
fn tile_units(lon: f64, lat: f64, z: u8) -> (f64, f64) {
	let n = (1u64 << z) as f64;
	let x = (lon + 180.0) / 360.0 * n;
	let phi = lat.to_radians();
	let y = if lat >= 90.0 {
		f64::NEG_INFINITY
	} else if lat <= -90.0 {
		f64::INFINITY
	} else {
		(1.0 - phi.tan().asinh() / std::f64::consts::PI) / 2.0 * n
	};
	(x, y)
}
/// (must, may) index interval of the tiles selected by the interval [lo, hi] (tile units)
fn sel_interval(lo: f64, hi: f64, z: u8) -> ((i64, i64), (i64, i64)) {
	let m = (1i64 << z) - 1;
	let eps = 2e-6 + (1u64 << z) as f64 * 4e-15;
	let cl = |v: f64| -> i64 {
		if v.is_nan() {
			0
		} else if v < 0.0 {
			0
		} else if v > m as f64 {
			m
		} else {
			v.floor() as i64
		}
	};
	// code: min = floor(lo + 1e-6), max = floor(hi - 1e-6), clamped, then max = max(max, min)
	let must = (cl(lo + 1e-6 + eps), cl(hi - 1e-6 - eps));
	let may = (cl(lo + 1e-6 - eps), cl(hi - 1e-6 + eps).max(cl(lo + 1e-6 + eps)));
	(must, may)
}
/// per level: (must-in box, may-in box) of the requested selection, None = no constraint object
fn oracle_selection(o: &Opts) -> Option<Vec<(B, B)>> {
	if o.min_zoom.is_none() && o.max_zoom.is_none() && o.bbox.is_none() {
		return None;
	}
	let mut v = vec![];
	for z in 0u8..32 {
		let m = ((1u64 << z) - 1) as u32;
		if o.min_zoom.is_some_and(|a| z < a) || o.max_zoom.is_some_and(|a| z > a) {
			v.push((None, None));
			continue;
		}
		let Some(g) = o.bbox else {
			v.push((Some((0, 0, m, m)), Some((0, 0, m, m))));
			continue;
		};
		let (xw, yn) = tile_units(g[0], g[3], z);
		let (xe, ys) = tile_units(g[2], g[1], z);
		let (mux, max_) = sel_interval(xw, xe, z);
		let (muy, may) = sel_interval(yn, ys, z);
		let bd = o.border.unwrap_or(0) as i64;
		let grow = |a: (i64, i64)| ((a.0 - bd).max(0), (a.1 + bd).min(m as i64));
		let must: B = if mux.0 <= mux.1 && muy.0 <= muy.1 {
			let (gx, gy) = (grow(mux), grow(muy));
			Some((gx.0 as u32, gy.0 as u32, gx.1 as u32, gy.1 as u32))
		} else {
			None
		};
		let (gx, gy) = (grow(max_), grow(may));
		v.push((must, Some((gx.0 as u32, gy.0 as u32, gx.1 as u32, gy.1 as u32))));
	}
	Some(v)
}

// ---------------------------------------------------------------------------------------------
// the scenario: tile set + source coverage + converter parameters
// ---------------------------------------------------------------------------------------------
#[derive(Clone, Debug)]
pub struct Scen {
	pub tiles: Vec<C>,
	pub cover: TileBBoxPyramid,
	pub f: bool,
	pub s: bool,
	pub req: Option<TileBBoxPyramid>,
	pub src_comp: TileCompression,
	pub dst_comp: Option<TileCompression>,
	pub format: TileFormat,
	pub force: bool,
}

fn payload(c: &C) -> Vec<u8> {
	format!("{},{},{}", c.0, c.1, c.2).into_bytes()
}

impl Scen {
	pub fn source(&self) -> MemSource {
		let tiles = self
			.tiles
			.iter()
			.map(|c| (TileCoord3::new(c.0, c.1, c.2).unwrap(), compress(Blob::from(payload(c)), &self.src_comp).unwrap()))
			.collect();
		MemSource::new("c06", self.format, self.src_comp, tiles).with_pyramid(self.cover.clone())
	}
	pub fn params(&self) -> TilesConverterParameters {
		TilesConverterParameters::new(self.dst_comp, self.req.clone(), self.force, self.f, self.s)
	}
	pub fn out_comp(&self) -> TileCompression {
		self.dst_comp.unwrap_or(self.src_comp)
	}
	fn req_str(&self) -> String {
		self.req.as_ref().map_or("-".to_string(), pyr_str)
	}
	fn decode(&self, b: Blob) -> String {
		match decompress(b, &self.out_comp()) {
			Ok(d) => String::from_utf8_lossy(d.as_slice()).to_string(),
			Err(_) => "undecodable".to_string(),
		}
	}
}

fn sort_items(mut v: Vec<(C, String)>) -> String {
	v.sort_by_key(|(c, _)| (c.2, c.0, c.1));
	if v.is_empty() {
		"-".into()
	} else {
		v.iter().map(|(c, p)| format!("{}={}", coord_str(c), p)).collect::<Vec<_>>().join(";")
	}
}

pub struct Ctx {
	pub rt: tokio::runtime::Runtime,
	pub dir: PathBuf,
	pub n_files: u64,
}

/// `Ok(Ok(x))` value, `Ok(Err)` → "err", `Err` → "panic"
fn show<T>(r: Result<anyhow::Result<T>, String>, f: impl FnOnce(T) -> String) -> String {
	match r {
		Ok(Ok(v)) => f(v),
		Ok(Err(_)) => "err".into(),
		Err(_) => "panic".into(),
	}
}

fn new_reader(sc: &Scen) -> Result<anyhow::Result<TilesConvertReader>, String> {
	catch(|| TilesConvertReader::new_from_reader(sc.source().boxed(), sc.params()))
}

fn do_cover(out: &mut Out, sc: &Scen) -> Option<TileBBoxPyramid> {
	let r = new_reader(sc);
	let cov = match &r {
		Ok(Ok(rd)) => Some(rd.get_parameters().bbox_pyramid.clone()),
		_ => None,
	};
	let line = format!("C06 cover {} {} {}", fs_str(sc.f, sc.s), sc.req_str(), pyr_str(&sc.cover));
	let nontrivial = (sc.f || sc.s) && cov.as_ref().is_some_and(|c| !c.is_empty());
	out.case(&line, &show(r, |rd| pyr_str(&rd.get_parameters().bbox_pyramid)), nontrivial);
	// oracle: cover' = T(cover) ∩ requested, level by level, as sets
	let want: Vec<B> = (0u8..32)
		.map(|z| {
			let t = t_box(sc.f, sc.s, z, &norm(sc.cover.get_level_bbox(z)));
			match &sc.req {
				Some(q) => isect(&t, &norm(q.get_level_bbox(z))),
				None => t,
			}
		})
		.collect();
	match &cov {
		Some(c) => {
			let got = norm_pyr(c);
			let bad = (0..32).find(|&z| got[z] != want[z]);
			out.oracle(
				bad.is_none(),
				&format!("C06 coverage: advertised level {:?} is {:?}, T(cover) ∩ requested is {:?}", bad, bad.map(|z| got[z]), bad.map(|z| want[z])),
				json!({"kind": "coverage", "flip": sc.f, "swap": sc.s}),
				json!({"case": line}),
			);
		}
		None => out.oracle(false, "C06 coverage: building the converting reader failed/panicked", json!({"kind": "coverage_fail", "flip": sc.f, "swap": sc.s}), json!({"case": line})),
	}
	cov
}

fn do_look(out: &mut Out, ctx: &Ctx, sc: &Scen, c: C) -> Option<Option<String>> {
	let r = catch(|| {
		let rd = TilesConvertReader::new_from_reader(sc.source().boxed(), TilesConverterParameters::new(sc.dst_comp, None, sc.force, sc.f, sc.s))?;
		let coord = TileCoord3::new(c.0, c.1, c.2)?;
		ctx.rt.block_on(rd.get_tile_data(&coord))
	});
	let val = match &r {
		Ok(Ok(o)) => Some(o.clone().map(|b| sc.decode(b))),
		_ => None,
	};
	let line = format!("C06 look {} {} {}", fs_str(sc.f, sc.s), tiles_str(&sc.tiles), coord_str(&c));
	out.case(&line, &show(r, |o| o.map_or("none".into(), |b| sc.decode(b))), sc.f || sc.s);
	val
}

fn do_stream(out: &mut Out, ctx: &Ctx, sc: &Scen, b: &TileBBox) -> Option<Vec<(C, String)>> {
	let r = catch(|| {
		let rd = TilesConvertReader::new_from_reader(sc.source().boxed(), TilesConverterParameters::new(sc.dst_comp, None, sc.force, sc.f, sc.s))?;
		Ok(ctx.rt.block_on(async { rd.get_bbox_tile_stream(b.clone()).await.collect().await }))
	});
	let val: Option<Vec<(C, String)>> = match &r {
		Ok(Ok(v)) => Some(v.iter().map(|(c, bl)| ((c.x, c.y, c.z), sc.decode(bl.clone()))).collect()),
		_ => None,
	};
	let line = format!("C06 stream {} {} {}", fs_str(sc.f, sc.s), tiles_str(&sc.tiles), box_str(b));
	let nontrivial = (sc.f || sc.s) && val.as_ref().is_some_and(|v| !v.is_empty());
	out.case(&line, &show(r, |_| sort_items(val.clone().unwrap())), nontrivial);
	val
}

/// restricted converter (bbox_pyramid = Some(..)): the bbox stream over boxes that reach beyond the
/// restriction must agree with the single lookups over the same box (both ignore the restriction on the
/// current tree – the known finding – but they must ignore or honour it TOGETHER)
fn do_rstream(out: &mut Out, ctx: &Ctx, sc: &Scen, b: &TileBBox) {
	let line = format!("C06 rstream {} {} {} {} {}", fs_str(sc.f, sc.s), sc.req_str(), pyr_str(&sc.cover), tiles_str(&sc.tiles), box_str(b));
	let r = catch(|| {
		let rd = TilesConvertReader::new_from_reader(sc.source().boxed(), sc.params())?;
		let cov = rd.get_parameters().bbox_pyramid.clone();
		let items = ctx.rt.block_on(async { rd.get_bbox_tile_stream(b.clone()).await.collect().await });
		let mut looks = vec![];
		for c in b.iter_coords() {
			if let Some(bl) = ctx.rt.block_on(rd.get_tile_data(&c))? {
				looks.push(((c.x, c.y, c.z), sc.decode(bl)));
			}
		}
		Ok((cov, items, looks))
	});
	let val = match &r {
		Ok(Ok((cov, items, looks))) => Some((cov.clone(), items.iter().map(|(c, bl)| ((c.x, c.y, c.z), sc.decode(bl.clone()))).collect::<Vec<(C, String)>>(), looks.clone())),
		_ => None,
	};
	let nontrivial = val.as_ref().is_some_and(|v| !v.2.is_empty());
	out.case(&line, &show(r, |_| sort_items(val.clone().unwrap().1)), nontrivial);
	out.count("restricted_stream_boxes");
	let Some((cov, items, looks)) = val else {
		out.oracle(false, "C06 restricted-stream: stream/lookups of the restricted converter failed or panicked", json!({"kind": "restricted_stream_fail", "flip": sc.f, "swap": sc.s}), json!({"case": line}));
		return;
	};
	let (si, li) = (sort_items(items.clone()), sort_items(looks.clone()));
	let beyond = looks.iter().any(|(c, _)| !in_b(&norm(cov.get_level_bbox(c.2)), c.0, c.1));
	if beyond {
		out.count("restricted_stream_boxes_reaching_beyond_with_tiles");
	}
	out.oracle(
		si == li,
		&format!("C06 restricted-stream-vs-lookup: over {} the bbox stream delivers {} but the single lookups deliver {}", box_str(b), trunc(&si, 200), trunc(&li, 200)),
		json!({"kind": "restricted_stream_vs_lookup", "flip": sc.f, "swap": sc.s, "beyond": beyond}),
		json!({"case": line}),
	);
	// agreement with the advertised coverage: recorded under the known finding's signature
	let outside = items.iter().find(|(c, _)| !in_b(&norm(cov.get_level_bbox(c.2)), c.0, c.1));
	out.oracle(
		outside.is_none(),
		&format!("C06 outside-coverage: bbox stream over {} returns a tile at {:?}, outside the advertised level box", box_str(b), outside.map(|x| x.0)),
		json!({"kind": "outside_coverage", "restricted": sc.req.is_some()}),
		json!({"case": line}),
	);
}

/// boxes that reach beyond the restriction: cut-away levels, straddling boxes, full level boxes
fn beyond_boxes(sc: &Scen) -> Vec<TileBBox> {
	let mut v: Vec<TileBBox> = vec![];
	let Some(req) = &sc.req else { return v };
	let small = |b: &B| b.map_or(false, |(x0, y0, x1, y1)| (x1 - x0 + 1) as u64 * (y1 - y0 + 1) as u64 <= 1100);
	for z in 0u8..32 {
		let m = ((1u64 << z) - 1) as u32;
		let t = t_box(sc.f, sc.s, z, &norm(sc.cover.get_level_bbox(z)));
		let Some((x0, y0, x1, y1)) = t else { continue };
		let grow = |(a, b, c, d): (u32, u32, u32, u32), k: u32| (a.saturating_sub(k), b.saturating_sub(k), (c as u64 + k as u64).min(m as u64) as u32, (d as u64 + k as u64).min(m as u64) as u32);
		let mut cands: Vec<B> = vec![];
		if z <= 5 {
			cands.push(Some((0, 0, m, m))); // the full level box
		}
		cands.push(Some(grow((x0, y0, x1, y1), 1))); // everything the source has here (+1 ring)
		if let Some(r) = norm(req.get_level_bbox(z)) {
			// straddling: the restricted box grown by 2, and shifted half out
			cands.push(Some(grow(r, 2)));
			cands.push(Some((r.0, r.1, (r.2 as u64 + 3).min(m as u64) as u32, r.3)));
		}
		for c in cands {
			if small(&c) {
				let (a, b, c2, d) = c.unwrap();
				let bx = TileBBox::new(z, a, b, c2, d).unwrap();
				if !v.contains(&bx) {
					v.push(bx);
				}
			}
		}
	}
	v
}

// ---------------------------------------------------------------------------------------------
// fault family: one (or every) source payload is invalid for the declared source compression and the
// conversion transcodes.  The conversion may fail loudly (Err / panic) – it must never report success
// while a selected tile is missing.
// case line: `C06 fault <fs> <req|-> <srccover> <tiles> <victim|*> <probe>` → `walk=<panic|err|tiles> look=<err|…>`
// ---------------------------------------------------------------------------------------------
struct FaultSpec {
	f: bool,
	s: bool,
	tiles: Vec<C>,
	cover: TileBBoxPyramid,
	req: Option<TileBBoxPyramid>,
	victim: Option<C>, // None = mislabelled source compression (every tile)
	src_comp: TileCompression,
	dst_comp: TileCompression,
	force: bool,
	fault_kind: u64,
	target: Option<&'static str>,
}

fn fault_case(out: &mut Out, ctx: &mut Ctx, rng: &mut Rng, i: usize) {
	let (f, s) = (i & 1 == 1, i & 2 == 2);
	let mut tiles: Vec<C> = gen_tiles(rng).into_iter().filter(|c| c.2 <= 24).collect();
	if tiles.is_empty() {
		tiles.push((1, 2, 3));
	}
	let mut cover = TileBBoxPyramid::new_empty();
	for c in &tiles {
		cover.include_coord(&TileCoord3::new(c.0, c.1, c.2).unwrap());
	}
	if cover.level_bbox.iter().any(|b| b.count_tiles() > 3000) {
		return;
	}
	let victim = *rng.pick(&tiles);
	let mislabel = rng.chance(1, 5);
	// (raw text can be a *valid* brotli stream – an empty last meta-block followed by ignored bytes –
	// so the mislabelling fault uses gzip, and every injected fault is verified to be undecodable below)
	let src_comp = if mislabel || rng.chance(1, 2) { TileCompression::Gzip } else { TileCompression::Brotli };
	let (dst_comp, force) = match rng.below(3) {
		0 => (src_comp, true), // --force-recompress
		1 => (TileCompression::Uncompressed, false),
		_ => (if src_comp == TileCompression::Gzip { TileCompression::Brotli } else { TileCompression::Gzip }, false),
	};
	let fault_kind = rng.below(3);
	// requested pyramid: none, or one that keeps the victim's image, or one that cuts it away
	let vimg = t_fwd(f, s, victim);
	let req: Option<TileBBoxPyramid> = match rng.below(4) {
		0 | 1 => None,
		2 => {
			let mut p = TileBBoxPyramid::new_full(32);
			p.set_zoom_min(vimg.2);
			p.set_zoom_max(vimg.2);
			Some(p)
		}
		_ => {
			let mut p = TileBBoxPyramid::new_full(32);
			p.level_bbox[vimg.2 as usize].set_empty();
			Some(p)
		}
	};
	let target = if i % 2 == 0 { Some(TARGETS[(i / 2) % 5]).filter(|t| *t != "mbtiles") } else { None };
	fault_run(out, ctx, FaultSpec { f, s, tiles, cover, req, victim: if mislabel { None } else { Some(victim) }, src_comp, dst_comp, force, fault_kind, target });
}

fn fault_run(out: &mut Out, ctx: &mut Ctx, spec: FaultSpec) {
	let FaultSpec { f, s, tiles, cover, req, victim: victim_opt, src_comp, dst_comp, force, fault_kind, target } = spec;
	let mislabel = victim_opt.is_none();
	let victim = victim_opt.unwrap_or(tiles[0]);
	let vimg = t_fwd(f, s, victim);
	let dst_comp = Some(dst_comp);
	let bad_blob = |c: &C, kind: u64| -> Blob {
		let good = compress(Blob::from(payload(c)), &src_comp).unwrap();
		match kind {
			0 => Blob::from(payload(c)),                                                  // a raw tile in a compressed set
			1 => Blob::from(good.as_slice()[..(good.len() as usize / 2).max(1)].to_vec()), // truncated blob
			_ => Blob::from(vec![0xffu8; 12]),                                             // garbage
		}
	};
	// the fault must be real: the victim's payload is rejected by the real decoder of the declared compression
	let fault_kind = if mislabel {
		if tiles.iter().any(|c| decompress(Blob::from(payload(c)), &src_comp).is_ok()) {
			out.count("fault_not_effective");
			return;
		}
		fault_kind
	} else {
		match [fault_kind, 1, 2].into_iter().find(|k| decompress(bad_blob(&victim, *k), &src_comp).is_err()) {
			Some(k) => k,
			None => {
				out.count("fault_not_effective");
				return;
			}
		}
	};
	let make_source = || -> MemSource {
		let stored = if mislabel { TileCompression::Uncompressed } else { src_comp };
		let blobs: Vec<(TileCoord3, Blob)> = tiles
			.iter()
			.map(|c| {
				let good = compress(Blob::from(payload(c)), &stored).unwrap();
				let blob = if !mislabel && *c == victim { bad_blob(c, fault_kind) } else { good };
				(TileCoord3::new(c.0, c.1, c.2).unwrap(), blob)
			})
			.collect();
		let mut src = MemSource::new("c06f", TileFormat::JSON, stored, blobs).with_pyramid(cover.clone());
		if mislabel {
			// `--override-input-compression`: every stored (raw) tile is declared compressed
			src.override_compression(src_comp);
		}
		src
	};
	let params = || TilesConverterParameters::new(dst_comp, req.clone(), force, f, s);
	let out_comp = dst_comp.unwrap();
	let decode = |b: Blob| match decompress(b, &out_comp) {
		Ok(d) => String::from_utf8_lossy(d.as_slice()).to_string(),
		Err(_) => "undecodable".to_string(),
	};
	let probe = vimg;
	let line = format!(
		"C06 fault {} {} {} {} {} {}",
		fs_str(f, s),
		req.as_ref().map_or("-".to_string(), pyr_str),
		pyr_str(&cover),
		tiles_str(&tiles),
		if mislabel { "*".to_string() } else { coord_str(&victim) },
		coord_str(&probe)
	);
	// the selection (direct): images of the source tiles inside the requested pyramid
	let selected: BTreeSet<C> = tiles.iter().map(|t| t_fwd(f, s, *t)).filter(|c| req.as_ref().map_or(true, |q| in_b(&norm(q.get_level_bbox(c.2)), c.0, c.1))).collect();
	// in memory: what a writer receives
	let walk = catch(|| {
		let rd = TilesConvertReader::new_from_reader(make_source().boxed(), params())?;
		let cov = rd.get_parameters().bbox_pyramid.clone();
		let mut items = vec![];
		for b in cov.iter_levels() {
			let v = ctx.rt.block_on(async { rd.get_bbox_tile_stream(b.clone()).await.collect().await });
			items.extend(v.into_iter().map(|(c, bl)| ((c.x, c.y, c.z), decode(bl))));
		}
		anyhow::Ok(items)
	});
	let look = catch(|| {
		let rd = TilesConvertReader::new_from_reader(make_source().boxed(), params())?;
		ctx.rt.block_on(rd.get_tile_data(&TileCoord3::new(probe.0, probe.1, probe.2)?))
	});
	let look_s = show(look, |o| o.map_or("none".into(), |b| decode(b)));
	let walk_s = match &walk {
		Ok(Ok(items)) => sort_items(items.clone()),
		Ok(Err(_)) => "err".into(),
		Err(_) => "panic".into(),
	};
	out.case(&line, &format!("walk={walk_s} look={look_s}"), true);
	out.count(match &walk {
		Ok(Ok(_)) => "fault_walk_success",
		Ok(Err(_)) => "fault_walk_err",
		Err(_) => "fault_walk_panic",
	});
	out.count(if mislabel { "fault_mislabelled_source" } else { ["fault_raw_tile", "fault_truncated_tile", "fault_garbage_tile"][fault_kind as usize] });
	let sig = |target: &str| json!({"kind": "silent_tile_loss", "target": target, "flip": f, "swap": s});
	let mut e: Option<String> = None;
	if let Ok(Ok(items)) = &walk {
		let got: BTreeSet<C> = items.iter().map(|x| x.0).collect();
		if let Some(c) = selected.iter().find(|c| !got.contains(c)) {
			e = Some(format!("the level streams finish without error but lack the selected tile {c:?} (lookup there: {look_s})"));
		}
	}
	out.oracle(e.is_none(), &format!("C06 silent-tile-loss: {}", e.clone().unwrap_or_default()), sig("memory"), json!({"case": line}));
	// real conversion into a container
	if let Some(target) = target {
		let path = target_path(ctx, target);
		let r = catch(|| ctx.rt.block_on(convert_tiles_container(make_source().boxed(), params(), &path)));
		let mut e: Option<String> = None;
		match r {
			Ok(Ok(())) => {
				out.count("fault_conversion_success");
				let dec = |b: Blob, comp: TileCompression| match decompress(b, &comp) {
					Ok(d) => String::from_utf8_lossy(d.as_slice()).to_string(),
					Err(_) => "undecodable".to_string(),
				};
				let got: BTreeSet<C> = match catch(|| read_all(ctx, &path, &dec)) {
					Ok(Ok((_, items, _))) => items.into_iter().map(|x| x.0).collect(),
					_ => BTreeSet::new(),
				};
				if let Some(c) = selected.iter().find(|c| !got.contains(c)) {
					e = Some(format!("convert_tiles_container → {target} reports success but the output lacks the selected tile {c:?} (its pre-image holds a source tile; lookup there: {look_s})"));
				}
			}
			Ok(Err(_)) => out.count("fault_conversion_err"),
			Err(_) => out.count("fault_conversion_panic"),
		}
		cleanup(&path);
		out.oracle(e.is_none(), &format!("C06 silent-tile-loss: {}", e.clone().unwrap_or_default()), sig(target), json!({"case": line, "target": target}));
	}
}

// ---------------------------------------------------------------------------------------------
// class 8 (extreme coordinates): zoom 0/1/30/31, requested boxes touching 0 and 2^z-1, borders that
// push a box over the level edge, geographic boxes exactly at ±180 / ±85.0511…
// ---------------------------------------------------------------------------------------------
const MERC: f64 = 85.05112877980659;
fn edge_sweep(out: &mut Out, ctx: &mut Ctx, rng: &mut Rng, thorough: bool) {
	let geos: Vec<[f64; 4]> = vec![
		[-180.0, -90.0, 180.0, 90.0],
		[-180.0, -MERC, 180.0, MERC],
		[-180.0, -MERC, -180.0, MERC],  // west edge line
		[180.0, -MERC, 180.0, MERC],    // east edge line
		[-180.0, MERC, 180.0, MERC],    // north edge line
		[-180.0, -MERC, 180.0, -MERC],  // south edge line
		[-180.0, MERC, -180.0, MERC],   // corner points
		[180.0, -MERC, 180.0, -MERC],
		[179.9999999, -MERC, 180.0, -85.0],
		[-180.0, 85.0, -179.9999999, 90.0],
		[0.0, 0.0, 0.0, 0.0],
	];
	let borders: [Option<u32>; 5] = [None, Some(0), Some(1), Some(3), Some(1 << 31)];
	for z in [0u8, 1, 2, 30, 31] {
		for (gi, g) in geos.iter().enumerate() {
			for (bi, b) in borders.iter().enumerate() {
				if !thorough && (gi + bi + z as usize) % 3 != 0 {
					continue;
				}
				let o = Opts { min_zoom: Some(z), max_zoom: Some(z), bbox: Some(*g), border: *b };
				do_pyr(out, &o);
				out.count("edge_sweep_options");
			}
		}
	}
	// boxes on coarse tile borders × zoom ranges (the exact bounds of z4/x5/y1 first)
	let mut boxes: Vec<[f64; 4]> = vec![[-67.5, 79.17133464081945, -45.0, 82.67628497834905]];
	for _ in 0..(if thorough { 600 } else { 60 }) {
		boxes.push(coarse_border_box(rng));
	}
	for (k, g) in boxes.iter().enumerate() {
		let (mn, mx) = match k % 4 {
			0 => (None, None),
			1 => (Some(rng.range(0, 8) as u8), Some(rng.range(9, 31) as u8)),
			2 => (None, Some(rng.range(3, 20) as u8)),
			_ => (Some(rng.range(2, 12) as u8), None),
		};
		let o = Opts { min_zoom: mn, max_zoom: mx, bbox: Some(*g), border: if k % 5 == 4 { Some(1) } else { None } };
		do_pyr(out, &o);
		out.count("coarse_border_options");
	}
	// conversions of corner tiles at the extreme levels under requested boxes that touch the level edges
	for z in [0u8, 1, 30, 31] {
		let m = ((1u64 << z) - 1) as u32;
		let corners: Vec<C> = if z == 0 { vec![(0, 0, 0)] } else { vec![(0, 0, z), (m, m, z), (0, m, z), (m, 0, z)] };
		for (k, corner) in corners.iter().enumerate() {
			let fl = (k + z as usize) % 4;
			let (f, s) = (fl & 1 == 1, fl & 2 == 2);
			let near = |c: &C| -> Vec<C> {
				let mut v = vec![*c];
				if z >= 1 {
					v.push((if c.0 == 0 { 1 } else { c.0 - 1 }, c.1, z));
					v.push((c.0, if c.1 == 0 { 1 } else { c.1 - 1 }, z));
				}
				v.sort();
				v.dedup();
				v
			};
			let tiles = near(corner);
			let mut cover = TileBBoxPyramid::new_empty();
			for c in &tiles {
				cover.include_coord(&TileCoord3::new(c.0, c.1, c.2).unwrap());
			}
			let img = t_fwd(f, s, *corner);
			// requested: exactly the image corner tile, grown by a border that is clamped at the level edge
			let mut req = TileBBoxPyramid::new_empty();
			req.include_coord(&TileCoord3::new(img.0, img.1, img.2).unwrap());
			let border = [0u32, 1, 2][k % 3];
			req.add_border(border, border, border, border);
			let sc = Scen { tiles, cover, f, s, req: Some(req), src_comp: COMPS[k % 3], dst_comp: None, format: TileFormat::JSON, force: false };
			let target = if z == 31 && k % 2 == 0 { None } else { Some(TARGETS[(k + z as usize) % 5]) };
			scenario(out, ctx, rng, &sc, None, target);
			out.count("edge_sweep_scenarios");
		}
	}
}

// ---------------------------------------------------------------------------------------------
// class 5 (pre-existing state): convert onto an existing (larger) output of every target format, convert
// a container onto itself; class 3 (payload classes): 1 byte, duplicates, > 1000 B, > 32 KiB;
// class 9: sources written by the independent encoders (PMTiles run lengths, padded versatiles blocks)
// ---------------------------------------------------------------------------------------------
/// decoded content of a container: level streams where the advertised level box is small (the default
/// stream materialises every coordinate of the box), single lookups at the candidate coordinates always
fn raw_tiles_at(ctx: &Ctx, path: &str, candidates: &[C]) -> anyhow::Result<BTreeMap<C, Vec<u8>>> {
	ctx.rt.block_on(async {
		let rd = get_reader(path).await?;
		let par = rd.get_parameters().clone();
		let mut m = BTreeMap::new();
		for b in par.bbox_pyramid.iter_levels() {
			if b.count_tiles() <= 5000 {
				for (c, bl) in rd.get_bbox_tile_stream(b.clone()).await.collect().await {
					m.insert((c.x, c.y, c.z), decompress(bl, &par.tile_compression)?.into_vec());
				}
			}
		}
		for c in candidates {
			if let Some(bl) = rd.get_tile_data(&TileCoord3::new(c.0, c.1, c.2)?).await? {
				m.insert(*c, decompress(bl, &par.tile_compression)?.into_vec());
			}
		}
		Ok(m)
	})
}
fn raw_tiles(ctx: &Ctx, path: &str) -> anyhow::Result<BTreeMap<C, Vec<u8>>> {
	raw_tiles_at(ctx, path, &[])
}

fn mem_with(tiles: &BTreeMap<C, Vec<u8>>, format: TileFormat, comp: TileCompression) -> MemSource {
	let blobs = tiles.iter().map(|(c, p)| (TileCoord3::new(c.0, c.1, c.2).unwrap(), compress(Blob::from(p.clone()), &comp).unwrap())).collect();
	MemSource::new("c06x", format, comp, blobs)
}

#[allow(clippy::too_many_arguments)]
fn reuse_one(out: &mut Out, ctx: &mut Ctx, bin: &Option<PathBuf>, target: &str, format: TileFormat, comp: TileCompression, f: bool, s: bool, a: &BTreeMap<C, Vec<u8>>, b: &BTreeMap<C, Vec<u8>>, self_too: bool) {
	let want: BTreeMap<C, Vec<u8>> = b.iter().map(|(c, p)| (t_fwd(f, s, *c), p.clone())).collect();
	let path = target_path(ctx, target);
	let line = format!("C06 reuse {target} {} A={} B={}", fs_str(f, s), tiles_str(&a.keys().cloned().collect::<Vec<C>>()), tiles_str(&b.keys().cloned().collect::<Vec<C>>()));
	// 1. write A (untransformed), 2. convert B onto the same path
	let first = catch(|| ctx.rt.block_on(convert_tiles_container(mem_with(&a, format, comp).boxed(), TilesConverterParameters::new_default(), &path)));
	let second = catch(|| ctx.rt.block_on(convert_tiles_container(mem_with(&b, format, comp).boxed(), TilesConverterParameters::new(None, None, false, f, s), &path)));
	let mut e: Option<(String, &str)> = None;
	match (&first, &second) {
		(Ok(Ok(())), Ok(Ok(()))) => match catch(|| raw_tiles_at(ctx, &path, &a.keys().cloned().chain(want.keys().cloned()).collect::<Vec<C>>())) {
			Ok(Ok(got)) => {
				if let Some(c) = got.keys().find(|c| !want.contains_key(*c)) {
					e = Some((format!("after converting B onto an existing {target} output the container still holds {c:?}, a tile of the PREVIOUS content (not in the selection)"), "leftover_tile"));
				} else if let Some((c, _)) = want.iter().find(|(c, p)| got.get(*c) != Some(*p)) {
					e = Some((format!("output tile {c:?} is missing or carries a different payload (len {:?}, expected {})", got.get(c).map(|p| p.len()), want[c].len()), "payload"));
				}
			}
			Ok(Err(err)) => e = Some((format!("output cannot be read back: {err:#}"), "unreadable")),
			Err(p) => e = Some((format!("reader panicked: {p}"), "reader_panic")),
		},
		(Ok(Ok(())), Ok(Err(_))) => out.count("reuse_second_conversion_refused"),
		(_, Err(p)) | (Err(p), _) => e = Some((format!("conversion panicked: {p}"), "panic")),
		_ => e = Some(("first conversion failed".into(), "first_failed")),
	}
	out.eval(&line, true);
	out.count(&format!("reuse_{target}"));
	out.oracle(e.is_none(), &format!("C06 existing-output: {target}: {}", e.as_ref().map(|x| x.0.clone()).unwrap_or_default()), json!({"kind": "existing_output", "target": target, "what": e.as_ref().map(|x| x.1)}), json!({"case": line}));
	// 3. a container converted onto itself (binary): must fail, or leave a container with exactly T(content)
	if let (Some(bin), true) = (bin, target != "dir" && self_too) {
		let before = catch(|| raw_tiles(ctx, &path)).ok().and_then(|r| r.ok());
		if let Some(before) = before {
			let mut a: Vec<String> = vec!["convert".into()];
			if f {
				a.push("--flip-y".into());
			}
			if s {
				a.push("--swap-xy".into());
			}
			a.push(path.clone());
			a.push(path.clone());
			let (code, stderr) = run_bin(bin, &a);
			let mut e: Option<String> = None;
			if stderr.contains("panicked at") {
				e = Some(format!("panicked: {}", trunc(stderr.lines().find(|l| l.contains("panicked")).unwrap_or(""), 160)));
			} else if code == Some(0) {
				let want: BTreeMap<C, Vec<u8>> = before.iter().map(|(c, p)| (t_fwd(f, s, *c), p.clone())).collect();
				match catch(|| raw_tiles(ctx, &path)) {
					Ok(Ok(got)) if got == want => {}
					Ok(Ok(got)) => e = Some(format!("reports success but the container now holds {} tiles, expected the {} transformed tiles of its previous content", got.len(), want.len())),
					_ => e = Some("reports success but the container can no longer be opened".into()),
				}
			}
			out.eval(&format!("C06 self {target} {}", fs_str(f, s)), true);
			out.count(if code == Some(0) { "self_conversion_success" } else { "self_conversion_refused" });
			out.oracle(e.is_none(), &format!("C06 self-conversion: `versatiles {}` {}", a.join(" "), e.clone().unwrap_or_default()), json!({"kind": "self_conversion", "target": target}), json!({"case": line, "cmd": a.join(" ")}));
		}
	}
	cleanup(&path);
}

fn reuse_and_payload_cases(out: &mut Out, ctx: &mut Ctx, rng: &mut Rng, n: usize) {
	let bin = vth_bin();
	for i in 0..n {
		let (f, s) = (i & 1 == 1, i & 2 == 2);
		let target = TARGETS[i % 5];
		let (format, comp) = if target == "mbtiles" { (TileFormat::PBF, TileCompression::Gzip) } else { (TileFormat::JSON, *rng.pick(&COMPS)) };
		// payload classes
		let big: Vec<u8> = rng.bytes(40_000);
		let mk = |rng: &mut Rng, tiles: &[C]| -> BTreeMap<C, Vec<u8>> {
			tiles
				.iter()
				.map(|c| {
					let p = match rng.below(6) {
						0 => vec![b'x'],                               // 1 byte
						1 => b"same payload".to_vec(),                  // duplicates (de-duplicated by the writers)
						2 => format!("{c:?}").repeat(120).into_bytes(), // > 1000 bytes: not de-duplicated by hash
						3 => b"y".repeat(1500),                         // duplicates above the de-dup threshold
						4 => big.clone(),                               // > 32 KiB
						_ => payload(c),
					};
					(*c, p)
				})
				.collect()
		};
		let a_tiles = gen_tiles(rng);
		let b_tiles: Vec<C> = { let t = gen_tiles(rng); if t == a_tiles { vec![(1, 2, 3)] } else { t } };
		let (a, b) = (mk(rng, &a_tiles), mk(rng, &b_tiles));
		reuse_one(out, ctx, &bin, target, format, comp, f, s, &a, &b, i % 2 == 0);
	}
	// byte-identical small payloads in DIFFERENT 256-blocks of one level (zoom 9: x = 254‥257; zoom 10: y = 510‥513), mixed with
	// distinct payloads of varying length so that block-relative offsets differ between the blocks: every target, every flag
	// pair; the output must carry the source payload at every T-image (seed C06-13: de-duplication shared across blocks)
	for i in 0..(if n >= 20 { 20 } else { 10 }) {
		let (f, s) = (i & 1 == 1, i & 2 == 2);
		let target = TARGETS[(i / 4 + i) % 5];
		let (format, comp) = if target == "mbtiles" { (TileFormat::PBF, TileCompression::Gzip) } else { (TileFormat::JSON, *rng.pick(&COMPS)) };
		let mut b: BTreeMap<C, Vec<u8>> = BTreeMap::new();
		let mut k = 0usize;
		for (z, xs, ys) in [(9u8, 254u32..=257, 6u32..=8), (10u8, 3u32..=4, 510u32..=513)] {
			for y in ys.clone() {
				for x in xs.clone() {
					k += 1;
					let p = match k % 4 {
						0 => b"SHARED".to_vec(),
						1 => format!("{x}-{y}-{z}-").repeat(1 + (k * 7) % 9).into_bytes(),
						2 => b"shared-999".repeat(90),
						_ => b"s".repeat(1 + (x as usize + y as usize) % 3),
					};
					b.insert((x, y, z), p);
				}
			}
		}
		let a: BTreeMap<C, Vec<u8>> = [((1u32, 2u32, 3u8), b"x".to_vec())].into_iter().collect();
		out.count("block_border_duplicates");
		reuse_one(out, ctx, &bin, target, format, comp, f, s, &a, &b, false);
	}
	// sources from the independent encoders through the converter
	for i in 0..n.min(12) {
		let (f, s) = (i & 1 == 1, i & 2 == 2);
		let (map, _) = crate::c03::gen_runs(rng);
		let kind = if i % 3 == 2 { "versatiles" } else { "pmtiles" };
		let src_path = target_path(ctx, kind);
		if kind == "pmtiles" {
			let mut ch = crate::c16::gen_pm_choices(rng);
			ch.merge_runs = true;
			ch.tcomp = 1;
			std::fs::write(&src_path, crate::indep_formats::encode_pmtiles(&map, &ch, rng).bytes).unwrap();
		} else {
			let mut ch = crate::c16::gen_vt_choices(rng);
			ch.comp = crate::indep_formats::Comp::None; // the payloads of `gen_runs` are stored as they are
			std::fs::write(&src_path, crate::indep_formats::encode_versatiles(&map, &ch, rng).bytes).unwrap();
		}
		let dst = target_path(ctx, "tar");
		let want: BTreeMap<C, Vec<u8>> = map.iter().map(|((z, x, y), p)| (t_fwd(f, s, (*x, *y, *z)), p.clone())).collect();
		let r = catch(|| {
			ctx.rt.block_on(async {
				let rd = get_reader(&src_path).await?;
				convert_tiles_container(rd, TilesConverterParameters::new(Some(TileCompression::Gzip), None, false, f, s), &dst).await
			})
		});
		let e = match r {
			Ok(Ok(())) => match catch(|| raw_tiles_at(ctx, &dst, &want.keys().cloned().collect::<Vec<C>>())) {
				Ok(Ok(got)) if got == want => None,
				Ok(Ok(got)) => Some(format!("output has {} tiles, the T-image of the source has {}; first missing {:?}, first unexpected {:?}", got.len(), want.len(), want.keys().find(|c| !got.contains_key(*c)), got.keys().find(|c| !want.contains_key(*c)))),
				_ => Some("output cannot be read back".to_string()),
			},
			Ok(Err(err)) => Some(format!("conversion failed: {err:#}")),
			Err(p) => Some(format!("conversion panicked: {p}")),
		};
		out.eval(&format!("C06 indep-source {kind} {} {}", fs_str(f, s), map.len()), f || s);
		out.count(&format!("indep_source_{kind}"));
		out.oracle(e.is_none(), &format!("C06 indep-source: spec-valid {kind} source from the independent encoder: {}", e.clone().unwrap_or_default()), json!({"kind": "indep_source", "format": kind, "flip": f, "swap": s}), json!({"case": format!("indep {kind} {} tiles={}", fs_str(f, s), tiles_str(&map.keys().map(|(z, x, y)| (*x, *y, *z)).collect::<Vec<_>>())) }));
		cleanup(&src_path);
		cleanup(&dst);
	}
}

// ---------------------------------------------------------------------------------------------
// numeric CLI options at their boundary values through the REAL binary, judged by definition
// (selected levels = min..=max) – no repo option code in the oracle (seed C06-10: 0 as "not given")
// ---------------------------------------------------------------------------------------------
fn cli_zoom_one(out: &mut Out, ctx: &mut Ctx, bin: &Path, mn: Option<u32>, mx: Option<u32>, bd: Option<u32>, f: bool, s: bool) {
	let dec = |b: Blob, comp: TileCompression| match decompress(b, &comp) {
		Ok(d) => String::from_utf8_lossy(d.as_slice()).to_string(),
		Err(_) => "undecodable".to_string(),
	};
	// dense source, levels 0..=3
	let mut tiles: Vec<C> = vec![];
	for z in 0..=3u8 {
		for y in 0..(1u32 << z) {
			for x in 0..(1u32 << z) {
				tiles.push((x, y, z));
			}
		}
	}
	let cover = TileBBoxPyramid::new_full(3);
	let sc = Scen { tiles: tiles.clone(), cover, f: false, s: false, req: None, src_comp: TileCompression::Gzip, dst_comp: None, format: TileFormat::JSON, force: false };
	let src_path = target_path(ctx, "versatiles");
	ctx.rt.block_on(convert_tiles_container(sc.source().boxed(), TilesConverterParameters::new_default(), &src_path)).unwrap();
	let dst = target_path(ctx, "tar");
	let mut a: Vec<String> = vec!["convert".into()];
	if let Some(v) = mn {
		a.push(format!("--min-zoom={v}"));
	}
	if let Some(v) = mx {
		a.push(format!("--max-zoom={v}"));
	}
	if let Some(v) = bd {
		a.push("--bbox=-180,-90,180,90".into());
		a.push(format!("--bbox-border={v}"));
	}
	if f {
		a.push("--flip-y".into());
	}
	if s {
		a.push("--swap-xy".into());
	}
	a.push(src_path.clone());
	a.push(dst.clone());
	let (code, stderr) = run_bin(bin, &a);
	let line = format!("C06 cli-zoom {} {} {} {}", mn.map_or("-".into(), |v| v.to_string()), mx.map_or("-".into(), |v| v.to_string()), bd.map_or("-".into(), |v| v.to_string()), fs_str(f, s));
	let mut e: Option<String> = None;
	let not_u8 = mn.is_some_and(|v| v > 255) || mx.is_some_and(|v| v > 255);
	// by definition: level z is selected iff min <= z <= max (a missing limit does not restrict)
	let want: BTreeMap<C, String> = tiles.iter().filter(|t| mn.map_or(true, |v| t.2 as u32 >= v) && mx.map_or(true, |v| t.2 as u32 <= v)).map(|t| (t_fwd(f, s, *t), String::from_utf8(payload(t)).unwrap())).collect();
	if stderr.contains("panicked at") {
		e = Some(format!("panicked: {}", trunc(stderr.lines().find(|l| l.contains("panicked")).unwrap_or(""), 160)));
	} else if not_u8 {
		if code == Some(0) {
			e = Some("a zoom limit above 255 was accepted".into());
		}
	} else if code == Some(0) {
		match catch(|| read_all(ctx, &dst, &dec)) {
			Ok(Ok((_, items, _))) => {
				let got: BTreeMap<C, String> = items.into_iter().collect();
				if got != want {
					let levels = |m: &BTreeMap<C, String>| m.keys().map(|c| c.2).collect::<BTreeSet<u8>>();
					e = Some(format!("output holds levels {:?} ({} tiles); by definition min..=max selects levels {:?} ({} tiles)", levels(&got), got.len(), levels(&want), want.len()));
				}
			}
			_ if want.is_empty() => {}
			_ => e = Some("output cannot be read back".into()),
		}
	} else if !want.is_empty() {
		e = Some(format!("the conversion failed (exit {code:?}) although levels are selected: {}", trunc(&stderr, 160)));
	}
	out.eval(&line, true);
	out.count("cli_boundary_runs");
	out.oracle(e.is_none(), &format!("C06 cli-zoom: `versatiles {}`: {}", a[..a.len() - 2].join(" "), e.clone().unwrap_or_default()), json!({"kind": "cli_zoom_boundary", "min": mn, "max": mx, "border": bd}), json!({"case": line, "cmd": a.join(" ")}));
	cleanup(&dst);
	cleanup(&src_path);
}

fn cli_boundary_cases(out: &mut Out, ctx: &mut Ctx, rng: &mut Rng, thorough: bool) {
	let Some(bin) = vth_bin() else { return };
	let vals: [u32; 9] = [0, 1, 2, 3, 4, 30, 31, 32, 255];
	let mut combos: Vec<(Option<u32>, Option<u32>, Option<u32>)> = vec![];
	for v in vals {
		combos.push((Some(v), None, None));
		combos.push((None, Some(v), None));
	}
	for (a, b) in [(0, 0), (0, 3), (1, 1), (3, 3), (2, 1), (0, 255), (31, 31), (255, 0), (1, 0), (0, 1), (3, 255)] {
		combos.push((Some(a), Some(b), None));
	}
	for bd in [0u32, 1] {
		combos.push((None, Some(0), Some(bd)));
		combos.push((Some(0), None, Some(bd)));
		combos.push((None, None, Some(bd)));
	}
	combos.push((Some(256), None, None)); // not a u8: must be rejected by the argument parser
	combos.push((None, Some(256), None));
	for (i, (mn, mx, bd)) in combos.iter().enumerate() {
		if !thorough && i % 2 == 1 && i > 30 {
			continue;
		}
		cli_zoom_one(out, ctx, &bin, *mn, *mx, *bd, i % 4 == 1, i % 4 == 2);
	}
	let _ = rng;
}

// ---------------------------------------------------------------------------------------------
// file sources of every format × requested boxes that cut through the stored 256-blocks: payloads are
// coordinate-stamped and compared byte for byte after the conversion (seed C06-9)
// ---------------------------------------------------------------------------------------------
fn file_source_cases(out: &mut Out, ctx: &mut Ctx, rng: &mut Rng, n: usize) {
	for i in 0..n {
		let kind = TARGETS[i % 5]; // versatiles, pmtiles, tar, mbtiles, dir
		let (f, s) = (rng.chance(1, 2), rng.chance(1, 2));
		let (format, comp) = if kind == "mbtiles" { (TileFormat::PBF, TileCompression::Gzip) } else { (TileFormat::JSON, *rng.pick(&COMPS)) };
		// a dense-ish cluster at zoom >= 9: inside one block, or straddling a 256 border
		let z = rng.range(9, 14) as u8;
		let nb = 1u64 << (z - 8);
		let (bx, by) = (rng.range(0, nb - 1), rng.range(0, nb - 1));
		let straddle = rng.chance(1, 2) && bx + 1 < nb;
		let (cx, cy) = if straddle { ((bx + 1) * 256 - rng.range(1, 6), by * 256 + rng.range(0, 200)) } else { (bx * 256 + rng.range(10, 200), by * 256 + rng.range(10, 200)) };
		let (w, h) = (rng.range(3, 12), rng.range(3, 12));
		let mut tiles: BTreeMap<C, Vec<u8>> = BTreeMap::new();
		for y in cy..cy + h {
			for x in cx..cx + w {
				if rng.chance(5, 6) && x < (1u64 << z) && y < (1u64 << z) {
					tiles.insert((x as u32, y as u32, z), payload(&(x as u32, y as u32, z)));
				}
			}
		}
		if rng.chance(1, 2) {
			tiles.insert((0, 0, 2), payload(&(0, 0, 2)));
			tiles.insert((3, 1, 2), payload(&(3, 1, 2)));
		}
		if tiles.is_empty() {
			continue;
		}
		let src_path = target_path(ctx, kind);
		let mut src = mem_with(&tiles, format, comp);
		if let Err(e) = ctx.rt.block_on(versatiles_container::write_to_filename(&mut src, &src_path)) {
			out.notes.push(format!("file_source_cases: could not write the {kind} source: {e}"));
			cleanup(&src_path);
			continue;
		}
		// requested pyramid in OUTPUT coordinates: a sub-box of the image of the cluster (cuts the stored block)
		let img: Vec<C> = tiles.keys().map(|t| t_fwd(f, s, *t)).filter(|c| c.2 == z).collect();
		let (ix0, iy0, ix1, iy1) = (img.iter().map(|c| c.0).min().unwrap(), img.iter().map(|c| c.1).min().unwrap(), img.iter().map(|c| c.0).max().unwrap(), img.iter().map(|c| c.1).max().unwrap());
		let m = ((1u64 << z) - 1) as u32;
		let sub = match rng.below(4) {
			0 => (ix0 + 1, iy0 + 1, ix1.saturating_sub(1).max(ix0 + 1), iy1.saturating_sub(1).max(iy0 + 1)), // strictly inside
			1 => (ix0.saturating_sub(2), iy0 + 2, (ix0 + 3).min(m), (iy0 + 4).min(m)),                           // across the west edge
			2 => ((ix0 + ix1) / 2, iy0.saturating_sub(1), (ix1 as u64 + 2).min(m as u64) as u32, (iy0 + iy1) / 2), // across north/east
			_ => (ix0, iy0, ix0, iy1),                                                                            // one column
		};
		let mut req = TileBBoxPyramid::new_empty();
		req.include_bbox(&TileBBox::new(z, sub.0.min(sub.2), sub.1.min(sub.3), sub.2.max(sub.0), sub.3.max(sub.1)).unwrap());
		if rng.chance(1, 2) {
			req.include_bbox(&TileBBox::new_full(2).unwrap());
		}
		let dst = target_path(ctx, "tar");
		let want: BTreeMap<C, Vec<u8>> = tiles.iter().map(|(t, p)| (t_fwd(f, s, *t), p.clone())).filter(|(c, _)| in_b(&norm(req.get_level_bbox(c.2)), c.0, c.1)).collect();
		let r = catch(|| {
			ctx.rt.block_on(async {
				let rd = get_reader(&src_path).await?;
				convert_tiles_container(rd, TilesConverterParameters::new(Some(TileCompression::Gzip), Some(req.clone()), false, f, s), &dst).await
			})
		});
		let line = format!("C06 filesrc {kind} {} {} {}", fs_str(f, s), box_str(req.get_level_bbox(z)), tiles_str(&tiles.keys().cloned().collect::<Vec<C>>()));
		let e = match r {
			Ok(Ok(())) => match catch(|| raw_tiles_at(ctx, &dst, &want.keys().cloned().collect::<Vec<C>>())) {
				Ok(Ok(got)) if got == want => None,
				Ok(Ok(got)) => {
					let d = want.iter().find(|(c, p)| got.get(*c) != Some(*p)).map(|(c, _)| *c).or(got.keys().find(|c| !want.contains_key(*c)).cloned());
					Some(format!("output ({} tiles) is not the selected T-image ({} tiles); at {:?} the output carries {:?}, expected {:?}", got.len(), want.len(), d, d.and_then(|c| got.get(&c)).map(|p| String::from_utf8_lossy(p).to_string()), d.and_then(|c| want.get(&c)).map(|p| String::from_utf8_lossy(p).to_string())))
				}
				_ if want.is_empty() => None,
				_ => Some("output cannot be read back".to_string()),
			},
			Ok(Err(err)) if want.is_empty() => {
				let _ = err;
				None
			}
			Ok(Err(err)) => Some(format!("conversion failed: {err:#}")),
			Err(p) => Some(format!("conversion panicked: {}", trunc(&p, 160))),
		};
		out.eval(&line, true);
		out.count(&format!("file_source_{kind}"));
		if straddle {
			out.count("file_source_straddling_256");
		}
		out.oracle(e.is_none(), &format!("C06 file-source: {kind} source, requested box cutting its stored block: {}", e.clone().unwrap_or_default()), json!({"kind": "file_source_subbox", "format": kind, "flip": f, "swap": s}), json!({"case": line}));
		cleanup(&src_path);
		cleanup(&dst);
	}
}

const TARGETS: [&str; 5] = ["versatiles", "pmtiles", "tar", "mbtiles", "dir"];

/// all tiles of a re-opened container: stream over every advertised level, checked against lookups
fn read_all(ctx: &Ctx, path: &str, comp_hint: &dyn Fn(Blob, TileCompression) -> String) -> anyhow::Result<(TileBBoxPyramid, Vec<(C, String)>, Option<String>)> {
	ctx.rt.block_on(async {
		let rd = get_reader(path).await?;
		let par = rd.get_parameters().clone();
		let mut items = vec![];
		let mut mismatch = None;
		for b in par.bbox_pyramid.iter_levels() {
			let v = rd.get_bbox_tile_stream(b.clone()).await.collect().await;
			let mut seen = BTreeSet::new();
			for (c, bl) in v {
				seen.insert((c.x, c.y));
				let l = rd.get_tile_data(&c).await?;
				if l.as_ref().map(|x| x.as_slice().to_vec()) != Some(bl.as_slice().to_vec()) && mismatch.is_none() {
					mismatch = Some(format!("re-opened output: stream and lookup differ at {c:?}"));
				}
				items.push(((c.x, c.y, c.z), comp_hint(bl, par.tile_compression)));
			}
			if b.count_tiles() <= 4096 {
				for c in b.iter_coords() {
					if !seen.contains(&(c.x, c.y)) && rd.get_tile_data(&c).await?.is_some() && mismatch.is_none() {
						mismatch = Some(format!("re-opened output: lookup has {c:?}, stream does not"));
					}
				}
			}
		}
		Ok((par.bbox_pyramid, items, mismatch))
	})
}

fn target_path(ctx: &mut Ctx, target: &str) -> String {
	ctx.n_files += 1;
	let p = ctx.dir.join(format!("o{}.{}", ctx.n_files, target));
	if target == "dir" {
		std::fs::create_dir_all(&p).unwrap();
	}
	p.to_str().unwrap().to_string()
}
fn cleanup(p: &str) {
	let _ = std::fs::remove_file(p);
	let _ = std::fs::remove_dir_all(p);
}

/// walk = coverage of the converting reader + everything a conversion delivers
fn do_walk(out: &mut Out, ctx: &mut Ctx, sc: &Scen, target: Option<&str>, sel: Option<&Vec<(B, B)>>) {
	let line = format!("C06 walk {} {} {} {}", fs_str(sc.f, sc.s), sc.req_str(), pyr_str(&sc.cover), tiles_str(&sc.tiles));
	let sig = |k: &str| json!({"kind": k, "flip": sc.f, "swap": sc.s, "target": target.unwrap_or("memory")});
	// in memory: what a writer receives (one stream per non-empty level)
	let r = catch(|| {
		let rd = TilesConvertReader::new_from_reader(sc.source().boxed(), sc.params())?;
		let cov = rd.get_parameters().bbox_pyramid.clone();
		let mut items = vec![];
		for b in cov.iter_levels() {
			let v = ctx.rt.block_on(async { rd.get_bbox_tile_stream(b.clone()).await.collect().await });
			items.extend(v.into_iter().map(|(c, bl)| ((c.x, c.y, c.z), sc.decode(bl))));
		}
		Ok((cov, items))
	});
	let mem = match &r {
		Ok(Ok(v)) => Some(v.clone()),
		_ => None,
	};
	let nontrivial = (sc.f || sc.s || sc.req.is_some()) && mem.as_ref().is_some_and(|m| !m.1.is_empty());
	out.case(&line, &show(r, |(cov, items)| format!("{}|{}", pyr_str(&cov), sort_items(items))), nontrivial);
	let Some((cov, items)) = mem else {
		out.oracle(false, "C06 walk: conversion failed/panicked", sig("walk_fail"), json!({"case": line}));
		return;
	};
	// direct oracle: tile at c ⇔ c ∈ selection ∧ source has T⁻¹ c (⇔ c = T t for a source tile t), payload = t's payload
	let mut want: BTreeMap<C, String> = BTreeMap::new();
	for t in &sc.tiles {
		let c = t_fwd(sc.f, sc.s, *t);
		let inside = match &sc.req {
			Some(q) => in_b(&norm(q.get_level_bbox(c.2)), c.0, c.1),
			None => true,
		};
		if inside {
			want.insert(c, String::from_utf8(payload(t)).unwrap());
		}
	}
	let check = |what: &str, got: &Vec<(C, String)>| -> Option<String> {
		let g: BTreeMap<C, String> = got.iter().cloned().collect();
		if g.len() != got.len() {
			return Some(format!("{what}: a coordinate is delivered twice"));
		}
		for (c, p) in &want {
			match g.get(c) {
				None => return Some(format!("{what}: tile {c:?} (source {p}) is missing")),
				Some(q) if q != p => return Some(format!("{what}: tile {c:?} carries payload of {q}, expected {p}")),
				_ => {}
			}
		}
		for (c, p) in &g {
			if !want.contains_key(c) {
				return Some(format!("{what}: unexpected tile {c:?} (payload {p})"));
			}
		}
		None
	};
	let e = check("stream walk", &items);
	out.oracle(e.is_none(), &format!("C06 selection: {}", e.clone().unwrap_or_default()), sig("selection"), json!({"case": line}));
	// lookups over the advertised coverage (+1 ring) must give the same map
	let rd = TilesConvertReader::new_from_reader(sc.source().boxed(), sc.params()).unwrap();
	let mut by_lookup = vec![];
	let mut outside: Option<String> = None;
	for z in 0u8..32 {
		let b = cov.get_level_bbox(z);
		let nb = norm(b);
		let Some((x0, y0, x1, y1)) = nb else { continue };
		if (x1 - x0) as u64 * (y1 - y0) as u64 > 3000 {
			continue;
		}
		let m = ((1u64 << z) - 1) as u32;
		for y in y0.saturating_sub(1)..=(y1.saturating_add(1)).min(m) {
			for x in x0.saturating_sub(1)..=(x1.saturating_add(1)).min(m) {
				let c = TileCoord3::new(x, y, z).unwrap();
				if let Ok(Ok(Some(bl))) = catch(|| ctx.rt.block_on(rd.get_tile_data(&c))) {
					if in_b(&nb, x, y) {
						by_lookup.push(((x, y, z), sc.decode(bl)));
					} else if outside.is_none() {
						outside = Some(format!("lookup returns a tile at {:?}, outside the advertised level box {:?}", (x, y, z), nb));
					}
				}
			}
		}
	}
	let small = (0u8..32).all(|z| norm(cov.get_level_bbox(z)).map_or(true, |(x0, y0, x1, y1)| (x1 - x0) as u64 * (y1 - y0) as u64 <= 3000));
	if small {
		let e = check("lookups over the advertised coverage", &by_lookup);
		out.oracle(e.is_none(), &format!("C06 lookup-vs-stream: {}", e.clone().unwrap_or_default()), sig("lookup_vs_stream"), json!({"case": line}));
	}
	out.oracle(
		outside.is_none(),
		&format!("C06 outside-coverage: {}", outside.clone().unwrap_or_default()),
		json!({"kind": "outside_coverage", "restricted": sc.req.is_some()}),
		json!({"case": line}),
	);
	// geographic selection against the independent reference
	if let Some(sel) = sel {
		let mut e = None;
		for t in &sc.tiles {
			let c = t_fwd(sc.f, sc.s, *t);
			let has = items.iter().any(|(k, _)| *k == c);
			let (must, may) = &sel[c.2 as usize];
			if in_b(must, c.0, c.1) && !has {
				e = Some(format!("tile {c:?} lies inside the requested selection (reference must-box {must:?}) but is not in the output"));
			}
			if !in_b(may, c.0, c.1) && has {
				e = Some(format!("tile {c:?} lies outside the requested selection (reference may-box {may:?}) but is in the output"));
			}
		}
		out.oracle(e.is_none(), &format!("C06 geo-selection: {}", e.clone().unwrap_or_default()), sig("geo_selection"), json!({"case": line}));
	}
	// real conversion into a container, re-opened with the real reader
	if let Some(target) = target {
		if cov.is_empty() {
			// an empty selection: every writer must finish or fail with an error – never panic
			let path = target_path(ctx, target);
			let r = catch(|| ctx.rt.block_on(convert_tiles_container(sc.source().boxed(), sc.params(), &path)));
			cleanup(&path);
			out.count("empty_selection_conversions");
			out.oracle(r.is_ok(), &format!("C06 conversion: convert_tiles_container → {target} with an empty selection panicked: {}", r.err().unwrap_or_default()), json!({"kind": "empty_selection_panic", "target": target}), json!({"case": line, "target": target}));
			return;
		}
		let path = target_path(ctx, target);
		let r = catch(|| ctx.rt.block_on(convert_tiles_container(sc.source().boxed(), sc.params(), &path)));
		let verdict = match r {
			Ok(Ok(())) => {
				let dec = |b: Blob, comp: TileCompression| match decompress(b, &comp) {
					Ok(d) => String::from_utf8_lossy(d.as_slice()).to_string(),
					Err(_) => "undecodable".to_string(),
				};
				match catch(|| read_all(ctx, &path, &dec)) {
					Ok(Ok((ocov, oitems, mism))) => {
						let mut e = check(&format!("{target} output"), &oitems);
						if e.is_none() {
							e = mism;
						}
						if e.is_none() {
							// advertised coverage of the output must contain every tile
							for (c, _) in &oitems {
								if !in_b(&norm(ocov.get_level_bbox(c.2)), c.0, c.1) {
									e = Some(format!("{target} output: tile {c:?} outside the output's advertised coverage"));
								}
							}
						}
						if e.is_none() {
							// three views must agree: pyramid advertised by the converting reader ⊇ coverage written
							// to the output (= it for versatiles, whose blocks are cut from it; = exact bounding box
							// of the delivered tiles for the tile-derived formats) ⊇ delivered tiles
							let delivered: Vec<C> = oitems.iter().map(|x| x.0).collect();
							let mut exact: Vec<B> = vec![None; 32];
							for &(x, y, z) in &delivered {
								let q = &mut exact[z as usize];
								*q = Some(match *q {
									None => (x, y, x, y),
									Some((a, b, c2, d)) => (a.min(x), b.min(y), c2.max(x), d.max(y)),
								});
							}
							for z in 0..32usize {
								let (o, a) = (norm(&ocov.level_bbox[z]), norm(&cov.level_bbox[z]));
								let sub = |x: &B, y: &B| x.map_or(true, |(x0, y0, x1, y1)| in_b(y, x0, y0) && in_b(y, x1, y1));
								let ok = if target == "versatiles" { o == a } else { o == exact[z] && sub(&o, &a) };
								if !ok {
									e = Some(format!("{target} output header advertises {o:?} at level {z}; the converting reader advertised {a:?}, the delivered tiles span {:?}", exact[z]));
									break;
								}
							}
						}
						e
					}
					// an output without any tile (selection hits no source tile): tar / directory / mbtiles
					// readers refuse to open an empty container – the output map is empty, as expected
					Ok(Err(_)) if want.is_empty() => {
						out.count("empty_output_not_openable");
						None
					}
					Ok(Err(err)) => Some(format!("{target} output cannot be re-opened: {err}")),
					Err(p) => Some(format!("{target} output: reader panicked: {p}")),
				}
			}
			Ok(Err(err)) => Some(format!("convert_tiles_container → {target} failed: {err}")),
			Err(p) => Some(format!("convert_tiles_container → {target} panicked: {p}")),
		};
		cleanup(&path);
		out.count(&format!("target_{target}"));
		let reason = match &verdict {
			Some(v) if v.contains("MIN(tile_column)") => "reader_zoom_gap",
			Some(v) if v.contains("reader panicked") && v.contains("overflow") => "reader_overflow",
			Some(v) if v.contains("cannot be re-opened") => "reopen",
			Some(v) if v.contains("panicked") => "panic",
			_ => "content",
		};
		out.oracle(
			verdict.is_none(),
			&format!("C06 conversion: {}", verdict.clone().unwrap_or_default()),
			json!({"kind": "conversion", "target": target, "reason": reason, "flip": sc.f, "swap": sc.s}),
			json!({"case": line, "target": target}),
		);
	}
}

// ---------------------------------------------------------------------------------------------
// generators
// ---------------------------------------------------------------------------------------------
fn gen_tiles(rng: &mut Rng) -> Vec<C> {
	let mut set = BTreeSet::new();
	let levels = rng.range(1, 3);
	let mut used: Vec<u8> = vec![];
	for _ in 0..levels {
		let z: u8 = match rng.below(12) {
			0 => 0,
			1 => 1,
			2..=4 => rng.range(2, 4) as u8,
			5..=8 => rng.range(5, 9) as u8,
			9 => rng.range(10, 20) as u8,
			10 => 30,
			_ => 31,
		};
		if used.contains(&z) {
			continue; // one cluster per level keeps the bounding boxes small
		}
		used.push(z);
		let m = (1u64 << z) - 1;
		let w = rng.range(0, 5.min(m));
		let h = rng.range(0, 5.min(m));
		let (x0, y0) = match rng.below(6) {
			0 => (0, 0),
			1 => (m - w, m - h),
			2 => (0, m - h),
			// straddling a 256-block border (versatiles / pmtiles writers cut the level into 256-grid cells)
			3 if z >= 9 => {
				let k = rng.range(1, (m + 1) / 256 - 1);
				((k * 256).saturating_sub(rng.range(0, w)), (rng.range(1, (m + 1) / 256 - 1) * 256).saturating_sub(rng.range(0, h)))
			}
			_ => (rng.range(0, m - w), rng.range(0, m - h)),
		};
		let dens = rng.range(1, 4);
		for y in y0..=y0 + h {
			for x in x0..=x0 + w {
				if rng.chance(dens, 4) {
					set.insert((x as u32, y as u32, z));
				}
			}
		}
		if set.is_empty() || rng.chance(1, 4) {
			set.insert((x0 as u32, (y0 + h) as u32, z));
		}
	}
	let mut v: Vec<C> = set.into_iter().collect();
	v.sort_by_key(|c| (c.2, c.0, c.1));
	v
}

fn gen_cover(rng: &mut Rng, tiles: &[C]) -> TileBBoxPyramid {
	let mut p = TileBBoxPyramid::new_empty();
	for c in tiles {
		p.include_coord(&TileCoord3::new(c.0, c.1, c.2).unwrap());
	}
	match rng.below(4) {
		0 => {
			// generous coverage: grow every used level by a border
			p.add_border(1, 2, 2, 1);
		}
		1 => {
			// an extra level without tiles
			let z = rng.range(0, 12) as u8;
			if p.get_level_bbox(z).is_empty() {
				let m = ((1u64 << z) - 1) as u32;
				p.include_coord(&TileCoord3::new(rng.below(m as u64 + 1) as u32, rng.below(m as u64 + 1) as u32, z).unwrap());
			}
		}
		_ => {}
	}
	p
}

fn lat_of_row(y: f64, z: u8) -> f64 {
	let n = (1u64 << z) as f64;
	((std::f64::consts::PI * (1.0 - 2.0 * y / n)).sinh()).atan().to_degrees()
}

/// geographic boxes aimed at the tile set: cutting tiles, on tile borders, points, antimeridian, poles, invalid
/// bounds of a tile block at a COARSE level `zc`, each edge optionally moved by a hair (δ tiles):
/// at the finer levels such an edge sits exactly on (or a hair beside) a tile border, where every level
/// has to apply its own 1e-6 rounding guard
fn coarse_border_box(rng: &mut Rng) -> [f64; 4] {
	const DELTAS: [f64; 11] = [0.0, 1e-9, -1e-9, 1e-8, -1e-8, 1e-7, -1e-7, 1e-6, -1e-6, 1e-5, -1e-5];
	let zc = rng.range(1, 10) as u8;
	let n = 1u64 << zc;
	let (x0, y0) = (rng.below(n), rng.below(n));
	let (x1, y1) = ((x0 + 1 + rng.below(2)).min(n), (y0 + 1 + rng.below(2)).min(n));
	let d = |rng: &mut Rng| if rng.chance(1, 2) { 0.0 } else { *rng.pick(&DELTAS) };
	let nf = n as f64;
	let lon = |x: f64| (x / nf * 360.0 - 180.0).clamp(-180.0, 180.0);
	let w = lon(x0 as f64 + d(rng));
	let e = lon(x1 as f64 + d(rng));
	let no = lat_of_row((y0 as f64 + d(rng)).clamp(0.0, nf), zc);
	let so = lat_of_row((y1 as f64 + d(rng)).clamp(0.0, nf), zc);
	match rng.below(8) {
		0 => [w, no, w, no],         // degenerate point on a tile corner
		1 => [w, so.min(no), w, no], // zero-width segment on a column border
		2 => [w.min(e), no, e, no],  // zero-height segment on a row border
		_ => [w.min(e), so.min(no), e.max(w), no.max(so)],
	}
}

fn gen_geo(rng: &mut Rng, tiles: &[C]) -> [f64; 4] {
	if rng.chance(1, 4) {
		return coarse_border_box(rng);
	}
	let t = if tiles.is_empty() { (0, 0, 0) } else { *rng.pick(tiles) };
	let z = t.2.min(24);
	let n = (1u64 << z) as f64;
	let fx = |x: f64| x / n * 360.0 - 180.0;
	let (tx, ty) = ((t.0 >> (t.2 - z)) as f64, (t.1 >> (t.2 - z)) as f64);
	let r = |rng: &mut Rng| rng.below(1000) as f64 / 1000.0;
	match rng.below(12) {
		0 => [-180.0, -90.0, 180.0, 90.0],
		1 => [-180.0, -85.05112877980659, 180.0, 85.05112877980659],
		2 => {
			// cuts through the tile and some neighbours
			let (a, b, c, d) = (r(rng) * 2.0, r(rng) * 2.0, r(rng) * 2.0, r(rng) * 2.0);
			[fx((tx - a).max(0.0)), lat_of_row((ty + 1.0 + b).min(n), z), fx((tx + 1.0 + c).min(n)), lat_of_row((ty - d).max(0.0), z)]
		}
		3 => {
			// exactly on tile borders
			let k = rng.range(1, 3) as f64;
			[fx(tx), lat_of_row((ty + k).min(n), z), fx((tx + k).min(n)), lat_of_row(ty, z)]
		}
		4 => {
			// degenerate point inside the tile
			let (lon, lat) = (fx(tx + r(rng)), lat_of_row(ty + r(rng), z));
			[lon, lat, lon, lat]
		}
		5 => {
			// degenerate point on a tile corner
			let (lon, lat) = (fx(tx), lat_of_row(ty, z));
			[lon, lat, lon, lat]
		}
		6 => [-180.0, lat_of_row((ty + 1.0).min(n), z), fx(tx + 0.5), 90.0],
		7 => [fx(tx + 0.5), -90.0, 180.0, lat_of_row(ty, z).min(90.0)],
		8 => [180.0, -10.0, 180.0, 10.0],
		9 => {
			// strictly inside one tile
			[fx(tx + 0.25), lat_of_row(ty + 0.75, z), fx(tx + 0.75), lat_of_row(ty + 0.25, z)]
		}
		10 => {
			// far away from the tiles (small box somewhere)
			let lon = -170.0 + r(rng) * 340.0;
			let lat = -80.0 + r(rng) * 160.0;
			[lon, lat, lon + r(rng) * 5.0, lat + r(rng) * 5.0]
		}
		_ => match rng.below(5) {
			0 => [10.0, 0.0, -10.0, 5.0],    // reversed lon
			1 => [0.0, 50.0, 5.0, 40.0],     // reversed lat
			2 => [-190.0, 0.0, 5.0, 40.0],   // out of range
			3 => [0.0, 0.0, 5.0, 95.0],      // out of range
			_ => [f64::NAN, 0.0, 5.0, 40.0], // NaN
		},
	}
}

fn gen_opts(rng: &mut Rng, tiles: &[C]) -> Opts {
	let zs: Vec<u8> = tiles.iter().map(|c| c.2).collect();
	let zpick = |rng: &mut Rng| -> u8 {
		match rng.below(6) {
			0 => rng.below(32) as u8,
			1 => *[32u8, 40, 255].get(rng.below(3) as usize).unwrap(),
			_ => {
				let z = if zs.is_empty() { 3 } else { *rng.pick(&zs) } as i64;
				(z + rng.below(3) as i64 - 1).clamp(0, 31) as u8
			}
		}
	};
	let mut o = Opts::default();
	if rng.chance(1, 2) {
		o.min_zoom = Some(zpick(rng));
	}
	if rng.chance(1, 2) {
		o.max_zoom = Some(zpick(rng));
	}
	if rng.chance(3, 4) {
		o.bbox = Some(gen_geo(rng, tiles));
	}
	if rng.chance(1, 2) {
		o.border = Some(match rng.below(8) {
			0 => 0,
			1..=3 => 1,
			4 => 2,
			5 => rng.range(3, 10) as u32,
			6 => 256,
			_ => 1 << 31,
		});
	}
	o
}

fn gen_req_direct(rng: &mut Rng, tiles: &[C], f: bool, s: bool) -> TileBBoxPyramid {
	let mut p = TileBBoxPyramid::new_empty();
	for t in tiles {
		if rng.chance(1, 2) {
			let c = t_fwd(f, s, *t);
			let m = ((1u64 << c.2) - 1) as u32;
			let b = TileBBox::new(c.2, c.0.saturating_sub(rng.below(3) as u32), c.1.saturating_sub(rng.below(3) as u32), (c.0 as u64 + rng.below(3)).min(m as u64) as u32, (c.1 as u64 + rng.below(3)).min(m as u64) as u32)
				.unwrap();
			p.include_bbox(&b);
		}
	}
	if rng.chance(1, 4) {
		// a level in the `set_empty` encoding and one in an arbitrary min > max encoding
		p.level_bbox[rng.below(32) as usize].set_empty();
		let z = rng.below(32) as usize;
		if p.level_bbox[z].is_empty() {
			p.level_bbox[z].x_min = 3;
			p.level_bbox[z].x_max = 2;
			p.level_bbox[z].y_min = 0;
			p.level_bbox[z].y_max = 0;
		}
	}
	p
}

const COMPS: [TileCompression; 3] = [TileCompression::Uncompressed, TileCompression::Gzip, TileCompression::Brotli];

fn gen_scen(rng: &mut Rng, i: usize) -> (Scen, Option<Opts>) {
	let tiles = gen_tiles(rng);
	let cover = gen_cover(rng, &tiles);
	let (f, s) = (i & 1 == 1, i & 2 == 2);
	let mut opts = None;
	let req = match rng.below(10) {
		0..=2 => None,
		3..=7 => {
			let o = gen_opts(rng, &tiles);
			let r = catch(|| get_bbox_pyramid_t(&o));
			opts = Some(o);
			match r {
				Ok(Ok(p)) => p,
				_ => None,
			}
		}
		_ => Some(gen_req_direct(rng, &tiles, f, s)),
	};
	let src_comp = *rng.pick(&COMPS);
	let dst_comp = if rng.chance(1, 2) { None } else { Some(*rng.pick(&COMPS)) };
	let force = rng.chance(1, 3); // --force-recompress (also with an unchanged target compression)
	(Scen { tiles, cover, f, s, req, src_comp, dst_comp, format: TileFormat::JSON, force }, opts)
}

fn do_pyr(out: &mut Out, o: &Opts) {
	let r = catch(|| get_bbox_pyramid_t(o));
	let line = o.case();
	let nontrivial = o.bbox.is_some() && matches!(&r, Ok(Ok(Some(_))));
	out.count(match &r {
		Ok(Ok(None)) => "pyr_none",
		Ok(Ok(Some(_))) => "pyr_some",
		Ok(Err(_)) => "pyr_err",
		Err(_) => "pyr_panic",
	});
	// oracle: invalid boxes are rejected with an error (never a panic); valid ones give must ⊆ box ⊆ may
	let valid = o.bbox.map_or(true, |g| g[0] >= -180.0 && g[1] >= -90.0 && g[2] <= 180.0 && g[3] <= 90.0 && g[0] <= g[2] && g[1] <= g[3]);
	let mut e: Option<(String, &str)> = None;
	match &r {
		Err(p) => e = Some((format!("option handling panicked: {p}"), "options_panic")),
		Ok(Err(_)) if valid => e = Some(("valid options rejected".into(), "options_rejected")),
		Ok(Ok(_)) if !valid => e = Some(("invalid --bbox accepted".into(), "options_accepted")),
		Ok(Ok(Some(p))) => {
			let sel = oracle_selection(o).unwrap();
			for z in 0..32usize {
				let got = norm(&p.level_bbox[z]);
				let (must, may) = &sel[z];
				let inside = |a: &B, b: &B| a.map_or(true, |(x0, y0, x1, y1)| in_b(b, x0, y0) && in_b(b, x1, y1));
				if !inside(must, &got) || !inside(&got, may) {
					e = Some((format!("level {z}: requested box {got:?} is not between the reference must-box {must:?} and may-box {may:?}"), "options_geo"));
					break;
				}
			}
			if let (Some(g), None) = (o.bbox, &e) {
				let gb = GeoBBox::from(&g);
				for z in 0..32u8 {
					let got = norm(&p.level_bbox[z as usize]);
					let excluded = o.min_zoom.is_some_and(|a| z < a) || o.max_zoom.is_some_and(|a| z > a);
					// (a) the pyramid's level box is the level's own projection `TileBBox::from_geo(z, bbox)`
					//     (+ border) – every level is projected with its own rounding guard
					let want: B = if excluded {
						None
					} else {
						match TileBBox::from_geo(z, &gb) {
							Ok(mut b) => {
								if let Some(bd) = o.border {
									if bd < (1 << 31) + 1 {
										b.add_border(bd, bd, bd, bd);
									}
								}
								norm(&b)
							}
							Err(_) => None,
						}
					};
					if got != want && o.border.map_or(true, |bd| bd <= 1 << 31) {
						e = Some((format!("level {z}: the requested pyramid has {got:?}, the level's own projection TileBBox::from_geo({z}, bbox){} is {want:?}", if o.border.is_some() { " + border" } else { "" }), "options_vs_level_projection"));
						break;
					}
					// (b) a degenerate box (point / segment) selects exactly one tile column / row per level,
					//     also when it lies exactly on a tile border
					if o.border.map_or(true, |bd| bd == 0) {
						if let Some((x0, y0, x1, y1)) = got {
							let wide = g[0] == g[2] && x1 != x0;
							if wide || (g[1] == g[3] && y1 != y0) {
								e = Some((format!("level {z}: a zero-{} box selects {got:?} - more than one tile {}", if wide { "width" } else { "height" }, if wide { "column" } else { "row" }), "options_degenerate"));
								break;
							}
						}
					}
				}
			}
		}
		Ok(Ok(None)) => {
			if oracle_selection(o).is_some() {
				e = Some(("no selection although options were given".into(), "options_none"));
			}
		}
		_ => {}
	}
	out.case(&line, &show(r, |p| p.map_or("none".into(), |p| pyr_str(&p))), nontrivial);
	out.oracle(e.is_none(), &format!("C06 options: {}", e.as_ref().map(|x| x.0.clone()).unwrap_or_default()), json!({"kind": e.as_ref().map(|x| x.1)}), json!({"case": line}));
}

fn scenario(out: &mut Out, ctx: &mut Ctx, rng: &mut Rng, sc: &Scen, opts: Option<&Opts>, target: Option<&str>) {
	out.count(&format!("flags_{}", fs_str(sc.f, sc.s)));
	out.count(if sc.req.is_some() { "req_some" } else { "req_none" });
	out.count_n("tiles", sc.tiles.len() as u64);
	if let Some(o) = opts {
		do_pyr(out, o);
	}
	do_cover(out, sc);
	// lookups: image of every source tile (must be found, with the source's payload), the image under the
	// *wrong* order (swap-then-flip), neighbours
	let img: BTreeMap<C, C> = sc.tiles.iter().map(|t| (t_fwd(sc.f, sc.s, *t), *t)).collect();
	let mut probes: Vec<C> = img.keys().cloned().collect();
	for t in sc.tiles.iter().take(6) {
		let (x, y, z) = *t;
		let m = ((1u64 << z) - 1) as u32;
		let wrong = if sc.s { (y, x, z) } else { (x, y, z) };
		let wrong = if sc.f { (wrong.0, m - wrong.1.min(m), z) } else { wrong };
		probes.push(wrong);
		probes.push((x, y, z));
		probes.push(((x as u64 + 1).min(m as u64) as u32, y, z));
	}
	probes.sort();
	probes.dedup();
	let mut e: Option<String> = None;
	let sel_line = format!("C06 look {} {} ", fs_str(sc.f, sc.s), tiles_str(&sc.tiles));
	let mut bad_probe = None;
	for c in probes.iter().take(40) {
		let got = do_look(out, ctx, sc, *c);
		let want = img.get(c).map(|t| String::from_utf8(payload(t)).unwrap());
		if got != Some(want.clone()) && e.is_none() {
			e = Some(format!("lookup at {c:?} gives {got:?}, the source tile with T(t) = c is {want:?}"));
			bad_probe = Some(*c);
		}
	}
	out.oracle(e.is_none(), &format!("C06 lookup: {}", e.clone().unwrap_or_default()), json!({"kind": "lookup", "flip": sc.f, "swap": sc.s}), json!({"case": format!("{sel_line}{}", bad_probe.map_or("-".into(), |c| coord_str(&c)))}));
	// streams: every non-empty level of T(cover) and a few random / empty boxes
	let mut boxes: Vec<TileBBox> = vec![];
	for z in 0u8..32 {
		if let Some((x0, y0, x1, y1)) = t_box(sc.f, sc.s, z, &norm(sc.cover.get_level_bbox(z))) {
			if (x1 - x0) as u64 * (y1 - y0) as u64 <= 400 {
				boxes.push(TileBBox::new(z, x0, y0, x1, y1).unwrap());
				if rng.chance(1, 2) && x1 > x0 {
					boxes.push(TileBBox::new(z, x0 + 1, y0, x1, y1).unwrap());
				}
			}
		}
	}
	let z = sc.tiles.first().map_or(2, |c| c.2);
	boxes.push(TileBBox::new_empty(z).unwrap());
	let mut be = TileBBox::new_empty(z).unwrap();
	be.set_empty();
	boxes.push(be);
	let mut e: Option<String> = None;
	let mut bad_box = None;
	for b in boxes.iter().take(8) {
		let got = do_stream(out, ctx, sc, b);
		let nb = norm(b);
		let want: BTreeMap<C, String> = img.iter().filter(|(c, _)| c.2 == b.level && in_b(&nb, c.0, c.1)).map(|(c, t)| (*c, String::from_utf8(payload(t)).unwrap())).collect();
		let ok = got.as_ref().is_some_and(|g| g.len() == want.len() && g.iter().all(|(c, p)| want.get(c) == Some(p)));
		if !ok && e.is_none() {
			e = Some(format!("stream over {} gives {:?}, expected {:?}", box_str(b), got.map(sort_items), want));
			bad_box = Some(box_str(b));
		}
	}
	out.oracle(e.is_none(), &format!("C06 stream: {}", e.clone().unwrap_or_default()), json!({"kind": "stream", "flip": sc.f, "swap": sc.s}), json!({"case": format!("C06 stream {} {} {}", fs_str(sc.f, sc.s), tiles_str(&sc.tiles), bad_box.unwrap_or("-".into()))}));
	// restricted converter: stream vs lookups on boxes reaching beyond the restriction
	if sc.req.is_some() {
		for b in beyond_boxes(sc).iter().take(5) {
			do_rstream(out, ctx, sc, b);
		}
	}
	// the conversion (the default stream materialises every coordinate of a level box: keep them small)
	if sc.cover.level_bbox.iter().any(|b| b.count_tiles() > 5000) {
		out.count("walk_skipped_large_cover");
		return;
	}
	let sel = opts.and_then(|o| if sc.req.is_some() { oracle_selection(o) } else { None });
	let mut sc2 = sc.clone();
	let target = target.map(|t| {
		if t == "mbtiles" {
			// MBTiles accepts only gzipped pbf / plain raster formats
			sc2.format = TileFormat::PBF;
			sc2.dst_comp = Some(TileCompression::Gzip);
		}
		t
	});
	do_walk(out, ctx, &sc2, target, sel.as_ref());
}

// ---------------------------------------------------------------------------------------------
// the real binary: `versatiles convert` option handling, `versatiles serve` coordinate mapping
// ---------------------------------------------------------------------------------------------
fn vth_bin() -> Option<PathBuf> {
	std::env::var("VTH_BIN").ok().map(PathBuf::from).filter(|p| p.exists())
}

fn run_bin(bin: &Path, args: &[String]) -> (Option<i32>, String) {
	let o = Command::new(bin).args(args).env("RUST_BACKTRACE", "0").stdin(Stdio::null()).output();
	match o {
		Ok(o) => (o.status.code(), String::from_utf8_lossy(&o.stderr).to_string()),
		Err(e) => (None, format!("spawn failed: {e}")),
	}
}

fn comp_cli(c: TileCompression) -> &'static str {
	match c {
		TileCompression::Uncompressed => "uncompressed",
		TileCompression::Gzip => "gzip",
		TileCompression::Brotli => "brotli",
	}
}

/// Option interplay through the REAL binary: `versatiles convert` with
/// {--min-zoom, --max-zoom, --bbox, --bbox-border} × {--flip-y} × {--swap-xy} × {--compress} ×
/// {--force-recompress} × {--override-input-compression} × source container × target container
/// vs. the library conversion with the transcribed options: same outcome class, same tiles (decoded),
/// same declared output compression; invalid/malformed `--bbox` must be an error, never a panic.
fn binary_cases(out: &mut Out, ctx: &mut Ctx, rng: &mut Rng, n: usize) {
	let Some(bin) = vth_bin() else {
		out.notes.push("VTH_BIN not available: binary tie of the option handling skipped".into());
		return;
	};
	let dec = |b: Blob, comp: TileCompression| match decompress(b, &comp) {
		Ok(d) => String::from_utf8_lossy(d.as_slice()).to_string(),
		Err(_) => "undecodable".to_string(),
	};
	// malformed --bbox strings: an error message, exit code != 0, no panic
	for (k, bad) in ["1,2,3", "1,2,3,4,5", "a,b,c,d", "1;2;x;4", "", "10,0,-10,5", "0,0,5,95", "nan,0,1,1"].iter().enumerate() {
		if k >= n {
			break;
		}
		let a: Vec<String> = vec!["convert".into(), format!("--bbox={bad}"), "/nonexistent-in.versatiles".into(), ctx.dir.join("never.tar").to_str().unwrap().into()];
		// the input is opened first: give it a real (tiny) container so that option handling is reached
		let src_path = target_path(ctx, "versatiles");
		let one = Scen { tiles: vec![(0, 0, 0)], cover: TileBBoxPyramid::new_full(0), f: false, s: false, req: None, src_comp: TileCompression::Gzip, dst_comp: None, format: TileFormat::JSON, force: false };
		ctx.rt.block_on(convert_tiles_container(one.source().boxed(), TilesConverterParameters::new_default(), &src_path)).unwrap();
		let a = vec![a[0].clone(), a[1].clone(), src_path.clone(), a[3].clone()];
		let (code, stderr) = run_bin(&bin, &a);
		let panicked = stderr.contains("panicked at");
		let ok = !panicked && code != Some(0);
		out.eval(&format!("C06 cli-bbox {bad}"), true);
		out.count("binary_malformed_bbox");
		out.oracle(
			ok,
			&format!("C06 binary: `versatiles convert --bbox={bad}` {} (exit {code:?}): {}", if panicked { "panicked" } else { "was accepted" }, trunc(stderr.lines().find(|l| l.contains("panicked")).unwrap_or(""), 160)),
			json!({"kind": if panicked { "binary_panic_malformed_bbox" } else { "binary_accepts_malformed_bbox" }}),
			json!({"case": format!("C06 cli-bbox {bad}"), "cmd": a.join(" ")}),
		);
		cleanup(&src_path);
		cleanup(a[3].as_str());
	}
	for i in 0..n {
		// dense low-zoom source so that the output shows the requested pyramid itself
		let zmax = rng.range(1, 3) as u8;
		let mut tiles = vec![];
		for z in 0..=zmax {
			for y in 0..(1u32 << z) {
				for x in 0..(1u32 << z) {
					if z < zmax || rng.chance(7, 8) {
						tiles.push((x, y, z));
					}
				}
			}
		}
		let mut o = gen_opts(rng, &tiles);
		if i % 7 == 6 {
			o.bbox = Some(match rng.below(3) {
				0 => [10.0, 0.0, -10.0, 5.0],
				1 => [0.0, 0.0, 5.0, 95.0],
				_ => [0.0, 50.0, 5.0, 40.0],
			});
		}
		// pairwise-ish: every option independently on/off
		let (f, s) = (rng.chance(1, 2), rng.chance(1, 2));
		let stored = *rng.pick(&COMPS);
		let compress_opt: Option<TileCompression> = if rng.chance(1, 2) { Some(*rng.pick(&COMPS)) } else { None };
		let force = rng.chance(1, 3);
		// a mislabelled source: a tar whose members carry `stored`-compressed payloads but no compression
		// extension, repaired with --override-input-compression
		let mislabelled = stored != TileCompression::Uncompressed && rng.chance(1, 3);
		let src_kind = if mislabelled { "tar" } else { *rng.pick(&["versatiles", "tar", "pmtiles"]) };
		let dst_kind = *rng.pick(&["tar", "versatiles", "pmtiles", "dir"]);
		let cover = {
			let mut p = TileBBoxPyramid::new_empty();
			for c in &tiles {
				p.include_coord(&TileCoord3::new(c.0, c.1, c.2).unwrap());
			}
			p
		};
		let blobs: Vec<(TileCoord3, Blob)> = tiles.iter().map(|c| (TileCoord3::new(c.0, c.1, c.2).unwrap(), compress(Blob::from(payload(c)), &stored).unwrap())).collect();
		let declared = if mislabelled { TileCompression::Uncompressed } else { stored };
		let src = MemSource::new("cli", TileFormat::JSON, declared, blobs).with_pyramid(cover);
		let src_path = target_path(ctx, src_kind);
		ctx.rt.block_on(async {
			let mut s2 = src.clone();
			versatiles_container::write_to_filename(&mut s2, &src_path).await
		})
		.unwrap();
		let dst_bin = target_path(ctx, dst_kind);
		let mut a: Vec<String> = vec!["convert".into()];
		a.extend(o.cli());
		if f {
			a.push("--flip-y".into());
		}
		if s {
			a.push("--swap-xy".into());
		}
		if let Some(c) = compress_opt {
			a.push(format!("--compress={}", comp_cli(c)));
		}
		if force {
			a.push("--force-recompress".into());
		}
		if mislabelled {
			a.push(format!("--override-input-compression={}", comp_cli(stored)));
		}
		a.push(src_path.clone());
		a.push(dst_bin.clone());
		let (code, stderr) = run_bin(&bin, &a);
		let panicked = stderr.contains("panicked at");
		let t = catch(|| get_bbox_pyramid_t(&o));
		// the same options through the library oracles (per-level projection, degenerate boxes, reference
		// selection): binary = library (below) and library = oracle (here) tie the CLI to the oracle
		do_pyr(out, &o);
		let line = format!("{} # versatiles {}", o.case(), a[..a.len() - 2].join(" "));
		// the library conversion with the same parameters
		let lib = |req: Option<TileBBoxPyramid>| -> Result<anyhow::Result<(BTreeMap<C, String>, TileCompression, bool)>, String> {
			catch(|| {
				ctx.rt.block_on(async {
					let mut rd = get_reader(&src_path).await?;
					if mislabelled {
						rd.override_compression(stored);
					}
					let cr = TilesConvertReader::new_from_reader(rd, TilesConverterParameters::new(compress_opt, req, force, f, s))?;
					let oc = cr.get_parameters().tile_compression;
					let mut m = BTreeMap::new();
					for b in cr.get_parameters().bbox_pyramid.iter_levels() {
						for (c, bl) in cr.get_bbox_tile_stream(b.clone()).await.collect().await {
							m.insert((c.x, c.y, c.z), dec(bl, oc));
						}
					}
					Ok((m, oc, cr.get_parameters().bbox_pyramid.is_empty()))
				})
			})
		};
		let mut e: Option<(String, &str)> = None;
		if panicked {
			e = Some((format!("`versatiles {}` panicked: {}", a.join(" "), trunc(stderr.lines().find(|l| l.contains("panicked")).unwrap_or(""), 200)), "binary_panic"));
		} else {
			match (&t, code) {
				(Ok(Ok(req)), Some(0)) => match lib(req.clone()) {
					Ok(Ok((want, want_comp, _))) => match catch(|| {
						ctx.rt.block_on(async {
							let rd = get_reader(&dst_bin).await?;
							let par = rd.get_parameters().clone();
							let mut m = BTreeMap::new();
							for b in par.bbox_pyramid.iter_levels() {
								for (c, bl) in rd.get_bbox_tile_stream(b.clone()).await.collect().await {
									m.insert((c.x, c.y, c.z), dec(bl, par.tile_compression));
								}
							}
							anyhow::Ok((m, par.tile_compression))
						})
					}) {
						Ok(Ok((got, got_comp))) => {
							// independent of every reader: the T-image of the generated tile set inside the requested pyramid,
							// each tile with its own coordinate-stamped payload
							let oracle: BTreeMap<C, String> = tiles
								.iter()
								.map(|t| (t_fwd(f, s, *t), String::from_utf8(payload(t)).unwrap()))
								.filter(|(c, _)| req.as_ref().map_or(true, |q| in_b(&norm(q.get_level_bbox(c.2)), c.0, c.1)))
								.collect();
							if got != oracle {
								let d = oracle.iter().find(|(c, p)| got.get(*c) != Some(*p)).map(|(c, _)| *c).or(got.keys().find(|c| !oracle.contains_key(*c)).cloned());
								e = Some((format!("binary output ({} tiles) is not the selected T-image of the source ({} tiles), first difference at {:?}: output has {:?}, expected {:?}", got.len(), oracle.len(), d, d.and_then(|c| got.get(&c)), d.and_then(|c| oracle.get(&c))), "binary_vs_oracle"));
							} else if got != want {
								let d = want.iter().find(|(c, p)| got.get(*c) != Some(*p)).map(|(c, _)| *c).or(got.keys().find(|c| !want.contains_key(*c)).cloned());
								e = Some((format!("binary output ({} tiles) differs from the library conversion with the same options ({} tiles), first difference at {:?}: binary {:?}, library {:?}", got.len(), want.len(), d, d.and_then(|c| got.get(&c)), d.and_then(|c| want.get(&c))), "binary_differs"));
							} else if got_comp != want_comp && !got.is_empty() {
								e = Some((format!("binary output declares compression {got_comp:?}, the library conversion {want_comp:?}"), "binary_compression"));
							} else if got.values().any(|p| p == "undecodable") {
								e = Some(("binary output holds a tile that does not decode under the declared compression".into(), "binary_undecodable"));
							}
						}
						_ if want.is_empty() => {} // empty selection: tar/dir readers refuse an empty container
						_ => e = Some(("binary output cannot be read back".into(), "binary_unreadable")),
					},
					_ => e = Some(("library conversion failed although the binary succeeded".into(), "library_failed")),
				},
				(Ok(Ok(req)), _) => {
					// the binary may legitimately fail when the selection is empty (writers reject empty pyramids)
					let empty = matches!(lib(req.clone()), Ok(Ok((_, _, true))));
					if !empty {
						e = Some((format!("binary failed (exit {code:?}) although the options are valid and the selection is not empty: {}", trunc(&stderr, 200)), "binary_failed"));
					}
				}
				(Ok(Err(_)), Some(0)) => e = Some(("binary accepted options that the transcription rejects".into(), "binary_accepts")),
				(Err(_), _) => e = Some(("transcribed option handling panicked, binary did not".into(), "transcription_panic")),
				_ => {}
			}
		}
		out.eval(&line, o.bbox.is_some());
		out.count("binary_convert_runs");
		out.count(&format!("binary_src_{src_kind}"));
		out.count(&format!("binary_dst_{dst_kind}"));
		for (k, on) in [("flip", f), ("swap", s), ("compress", compress_opt.is_some()), ("force", force), ("override_input", mislabelled), ("bbox", o.bbox.is_some()), ("border", o.border.is_some()), ("minzoom", o.min_zoom.is_some()), ("maxzoom", o.max_zoom.is_some())] {
			if on {
				out.count(&format!("binary_opt_{k}"));
			}
		}
		out.oracle(e.is_none(), &format!("C06 binary: {}", e.as_ref().map(|x| x.0.clone()).unwrap_or_default()), json!({"kind": e.as_ref().map(|x| x.1)}), json!({"case": o.case(), "cmd": a.join(" ")}));
		cleanup(&src_path);
		cleanup(&dst_bin);
	}
}

struct Server {
	child: Child,
	port: u16,
}
impl Drop for Server {
	fn drop(&mut self) {
		let _ = self.child.kill();
		let _ = self.child.wait();
	}
}
fn free_port() -> u16 {
	std::net::TcpListener::bind("127.0.0.1:0").unwrap().local_addr().unwrap().port()
}
fn http_get(port: u16, path: &str) -> Option<(u16, Vec<u8>)> {
	let mut s = std::net::TcpStream::connect(("127.0.0.1", port)).ok()?;
	s.set_read_timeout(Some(std::time::Duration::from_secs(5))).ok()?;
	write!(s, "GET {path} HTTP/1.1\r\nHost: localhost\r\nAccept-Encoding: identity\r\nConnection: close\r\n\r\n").ok()?;
	let mut buf = vec![];
	let _ = s.read_to_end(&mut buf);
	let pos = buf.windows(4).position(|w| w == b"\r\n\r\n")?;
	let head = String::from_utf8_lossy(&buf[..pos]).to_string();
	let status: u16 = head.split(' ').nth(1)?.parse().ok()?;
	let mut body = buf[pos + 4..].to_vec();
	if head.to_ascii_lowercase().contains("transfer-encoding: chunked") {
		let mut out = vec![];
		let mut i = 0;
		loop {
			let Some(e) = body[i..].windows(2).position(|w| w == b"\r\n") else { break };
			let Ok(n) = usize::from_str_radix(String::from_utf8_lossy(&body[i..i + e]).trim(), 16) else { break };
			if n == 0 {
				break;
			}
			i += e + 2;
			if i + n > body.len() {
				break;
			}
			out.extend_from_slice(&body[i..i + n]);
			i += n + 2;
		}
		body = out;
	}
	Some((status, body))
}
fn start_server(bin: &Path, srcs: &[(String, String)], f: bool, s: bool) -> Option<Server> {
	for _ in 0..5 {
		let port = free_port();
		let mut a: Vec<String> = vec!["serve".into(), "-i".into(), "127.0.0.1".into(), "-p".into(), port.to_string(), "--disable-api".into()];
		if f {
			a.push("--flip-y".into());
		}
		if s {
			a.push("--swap-xy".into());
		}
		for (id, path) in srcs {
			a.push(format!("[{id}]{path}"));
		}
		let child = Command::new(bin).args(&a).stdin(Stdio::null()).stdout(Stdio::null()).stderr(Stdio::null()).spawn().ok()?;
		let mut srv = Server { child, port };
		for _ in 0..100 {
			if std::net::TcpStream::connect(("127.0.0.1", port)).is_ok() {
				return Some(srv);
			}
			if srv.child.try_wait().ok().flatten().is_some() {
				break;
			}
			std::thread::sleep(std::time::Duration::from_millis(50));
		}
	}
	None
}

/// `versatiles serve --flip-y --swap-xy` exposes the same coordinate mapping as `versatiles convert`,
/// for EVERY tile source of the server: container A is served under two ids (first and last
/// position), container B (a different tile set) in between; each id's answers are compared with
/// `versatiles convert <flags>` of the same container.   case line: `C06 serve <fs> <tilesA> <tilesB>`
fn serve_one(out: &mut Out, ctx: &mut Ctx, bin: &Path, f: bool, s: bool, tiles_a: &[C], tiles_b: &[C]) {
	let dec = |b: Blob, comp: TileCompression| match decompress(b, &comp) {
		Ok(d) => String::from_utf8_lossy(d.as_slice()).to_string(),
		Err(_) => "undecodable".to_string(),
	};
	let line = format!("C06 serve {} {} {}", fs_str(f, s), tiles_str(tiles_a), tiles_str(tiles_b));
	let mut e: Option<String> = None;
	let mut which = "";
	let mut paths = vec![];
	let mut convs: Vec<BTreeMap<C, String>> = vec![];
	for tiles in [tiles_a, tiles_b] {
		let mut cover = TileBBoxPyramid::new_empty();
		for c in tiles {
			cover.include_coord(&TileCoord3::new(c.0, c.1, c.2).unwrap());
		}
		let sc = Scen { tiles: tiles.to_vec(), cover, f, s, req: None, src_comp: TileCompression::Uncompressed, dst_comp: None, format: TileFormat::JSON, force: false };
		let src_path = target_path(ctx, "versatiles");
		ctx.rt.block_on(convert_tiles_container(sc.source().boxed(), TilesConverterParameters::new_default(), &src_path)).unwrap();
		let dst = target_path(ctx, "tar");
		let mut a: Vec<String> = vec!["convert".into()];
		if f {
			a.push("--flip-y".into());
		}
		if s {
			a.push("--swap-xy".into());
		}
		a.push(src_path.clone());
		a.push(dst.clone());
		let (code, stderr) = run_bin(bin, &a);
		if code != Some(0) && e.is_none() {
			e = Some(format!("versatiles convert failed: {}", trunc(&stderr, 200)));
		}
		let conv: BTreeMap<C, String> = match catch(|| read_all(ctx, &dst, &dec)) {
			Ok(Ok((_, items, _))) => items.into_iter().collect(),
			_ => BTreeMap::new(),
		};
		// the conversion itself must be the property's mapping
		let want: BTreeMap<C, String> = tiles.iter().map(|t| (t_fwd(f, s, *t), String::from_utf8(payload(t)).unwrap())).collect();
		if conv != want && e.is_none() {
			e = Some("versatiles convert output is not the T-image of the source".into());
			which = "convert";
		}
		cleanup(&dst);
		paths.push(src_path);
		convs.push(conv);
	}
	let served: Vec<(String, String)> = vec![("a1".into(), paths[0].clone()), ("b".into(), paths[1].clone()), ("a2".into(), paths[0].clone())];
	match start_server(bin, &served, f, s) {
		None => out.notes.push("could not start versatiles serve (infrastructure); case skipped".into()),
		Some(srv) => {
			for (pos, (id, tiles, conv)) in [("a1", tiles_a, &convs[0]), ("b", tiles_b, &convs[1]), ("a2", tiles_a, &convs[0])].into_iter().enumerate() {
				let mut probes: BTreeSet<C> = conv.keys().take(8).cloned().collect();
				for t in tiles.iter().take(5) {
					probes.insert(*t);
					probes.insert(t_fwd(f, s, *t));
					probes.insert(t_fwd(f, false, t_fwd(false, s, *t))); // image under the wrong order (swap, then flip)
				}
				for c in probes.iter().take(20) {
					let m = (1u64 << c.2) - 1;
					if c.0 as u64 > m || c.1 as u64 > m {
						continue;
					}
					let url = format!("/tiles/{id}/{}/{}/{}", c.2, c.0, c.1);
					let got = http_get(srv.port, &url);
					let want = conv.get(c);
					let ok = match (&got, want) {
						(Some((200, body)), Some(p)) => String::from_utf8_lossy(body) == *p,
						(Some((404, _)), None) => true,
						_ => false,
					};
					if !ok && e.is_none() {
						e = Some(format!("tile source #{} of the server: GET {url} → {:?}, `versatiles convert` with the same flags has {:?} there", pos + 1, got.map(|(st, b)| (st, String::from_utf8_lossy(&b).to_string())), want));
						which = if pos == 0 { "first_source" } else { "later_source" };
					}
					out.count("serve_requests");
				}
			}
			drop(srv);
		}
	}
	out.eval(&line, f || s);
	out.count("serve_cases");
	out.oracle(e.is_none(), &format!("C06 serve-vs-convert: {}", e.clone().unwrap_or_default()), json!({"kind": "serve_vs_convert", "flip": f, "swap": s, "where": which}), json!({"case": line}));
	for p in paths {
		cleanup(&p);
	}
}

fn serve_cases(out: &mut Out, ctx: &mut Ctx, rng: &mut Rng, n: usize) {
	let Some(bin) = vth_bin() else {
		out.notes.push("VTH_BIN not available: serve-vs-convert skipped".into());
		return;
	};
	for i in 0..n {
		// quick tier: 11, 10, 01, 11 …; the flag-less server only every 8th case
		let (f, s) = match i % 8 {
			7 => (false, false),
			k => [(true, true), (true, false), (false, true)][k % 3],
		};
		let gen = |rng: &mut Rng| {
			let mut t: Vec<C> = gen_tiles(rng).into_iter().filter(|c| c.2 <= 20).collect();
			if t.is_empty() {
				t.push((1, 2, 3));
			}
			t
		};
		let (ta, tb) = (gen(rng), gen(rng));
		serve_one(out, ctx, &bin, f, s, &ta, &tb);
	}
}

// ---------------------------------------------------------------------------------------------
// replay
// ---------------------------------------------------------------------------------------------
fn replay_line(out: &mut Out, ctx: &mut Ctx, line: &str) {
	let line = line.split(" #").next().unwrap();
	let t: Vec<&str> = line.split(' ').collect();
	if t.len() < 2 || t[0] != "C06" {
		return;
	}
	let flags = |s: &str| (s.as_bytes()[0] == b'1', s.as_bytes()[1] == b'1');
	let opt_pyr = |s: &str| if s == "-" { None } else { Some(parse_pyr(s)) };
	let mk = |f: bool, s: bool, req: Option<TileBBoxPyramid>, cover: TileBBoxPyramid, tiles: Vec<C>| Scen { tiles, cover, f, s, req, src_comp: TileCompression::Gzip, dst_comp: None, format: TileFormat::JSON, force: false };
	let cover_of = |tiles: &[C]| {
		let mut p = TileBBoxPyramid::new_empty();
		for c in tiles {
			p.include_coord(&TileCoord3::new(c.0, c.1, c.2).unwrap());
		}
		p
	};
	match t[1] {
		"pyr" if t.len() == 6 => {
			let on = |s: &str| if s == "-" { None } else { Some(s.parse::<u64>().unwrap()) };
			let o = Opts {
				min_zoom: on(t[2]).map(|x| x as u8),
				max_zoom: on(t[3]).map(|x| x as u8),
				bbox: if t[4] == "-" {
					None
				} else {
					let v: Vec<f64> = t[4].split(',').map(|x| f64::from_bits(x.parse().unwrap())).collect();
					Some([v[0], v[1], v[2], v[3]])
				},
				border: on(t[5]).map(|x| x as u32),
			};
			do_pyr(out, &o);
		}
		"cover" if t.len() == 5 => {
			let (f, s) = flags(t[2]);
			do_cover(out, &mk(f, s, opt_pyr(t[3]), parse_pyr(t[4]), vec![]));
		}
		"look" if t.len() == 5 => {
			let (f, s) = flags(t[2]);
			let tiles = parse_tiles(t[3]);
			let sc = mk(f, s, None, cover_of(&tiles), tiles);
			if t[4] != "-" {
				let c = parse_coord(t[4]);
				let got = do_look(out, ctx, &sc, c);
				let want = sc.tiles.iter().find(|x| t_fwd(f, s, **x) == c).map(|x| String::from_utf8(payload(x)).unwrap());
				out.oracle(got == Some(want.clone()), &format!("C06 lookup: lookup at {c:?} gives {got:?}, the source tile with T(t) = c is {want:?}"), json!({"kind": "lookup", "flip": f, "swap": s}), json!({"case": line}));
			}
		}
		"stream" if t.len() == 5 => {
			let (f, s) = flags(t[2]);
			let tiles = parse_tiles(t[3]);
			let sc = mk(f, s, None, cover_of(&tiles), tiles);
			if t[4] != "-" {
				do_stream(out, ctx, &sc, &parse_box(t[4]));
			}
		}
		"cli-zoom" if t.len() == 6 => {
			if let Some(bin) = vth_bin() {
				let on = |x: &str| if x == "-" { None } else { x.parse::<u32>().ok() };
				let (f, s) = flags(t[5]);
				cli_zoom_one(out, ctx, &bin, on(t[2]), on(t[3]), on(t[4]), f, s);
			}
		}
		"reuse" if t.len() == 6 => {
			let target = TARGETS.iter().find(|x| **x == t[2]).copied().unwrap_or("tar");
			let (f, s) = flags(t[3]);
			let mk = |spec: &str| -> BTreeMap<C, Vec<u8>> { parse_tiles(&spec[2..]).into_iter().map(|c| (c, payload(&c))).collect() };
			let (format, comp) = if target == "mbtiles" { (TileFormat::PBF, TileCompression::Gzip) } else { (TileFormat::JSON, TileCompression::Gzip) };
			reuse_one(out, ctx, &vth_bin(), target, format, comp, f, s, &mk(t[4]), &mk(t[5]), true);
		}
		"fault" if t.len() == 8 => {
			let (f, s) = flags(t[2]);
			let tiles = parse_tiles(t[5]);
			let victim = if t[6] == "*" { None } else { Some(parse_coord(t[6])) };
			for (src_comp, dst_comp, force, fault_kind) in [(TileCompression::Gzip, TileCompression::Brotli, false, 0), (TileCompression::Brotli, TileCompression::Brotli, true, 1)] {
				if victim.is_none() && src_comp != TileCompression::Gzip {
					continue;
				}
				fault_run(out, ctx, FaultSpec { f, s, tiles: tiles.clone(), cover: parse_pyr(t[4]), req: opt_pyr(t[3]), victim, src_comp, dst_comp, force, fault_kind, target: Some("tar") });
			}
		}
		"rstream" if t.len() == 7 => {
			let (f, s) = flags(t[2]);
			do_rstream(out, ctx, &mk(f, s, opt_pyr(t[3]), parse_pyr(t[4]), parse_tiles(t[5])), &parse_box(t[6]));
		}
		"serve" if t.len() == 5 => {
			if let Some(bin) = vth_bin() {
				let (f, s) = flags(t[2]);
				serve_one(out, ctx, &bin, f, s, &parse_tiles(t[3]), &parse_tiles(t[4]));
			}
		}
		"walk" if t.len() == 6 => {
			let (f, s) = flags(t[2]);
			let sc = mk(f, s, opt_pyr(t[3]), parse_pyr(t[4]), parse_tiles(t[5]));
			do_walk(out, ctx, &sc, Some("tar"), None);
		}
		_ => {}
	}
}

pub fn run(args: &Args) {
	quiet_panics();
	let mut out = Out::new(&args.out);
	out.rule = "scenario = sparse tile set (levels 0..31, border coordinates, payload = own source coordinate, 3 stored compressions) × source coverage (exact / generous / extra level) × 4 flag pairs × requested selection (none / `versatiles convert` options: zoom limits, geographic box [cutting tiles, on tile borders, points, antimeridian, poles, far away, invalid], border / arbitrary pyramid incl. empty encodings) × target (memory, versatiles, pmtiles, tar, mbtiles, directory); per scenario: option handling, advertised coverage, lookups at T(t)/wrongly-ordered image/neighbours, streams over T(cover) levels and empty boxes, full conversion re-opened; non-trivial = a flag is set (or a selection given) and the result is non-empty".into();
	out.notes.push("checklist: 1 thresholds - 256-block border clusters, levels 0/1/30/31, zoom arguments 31/32/40/255 (u8), border 2^31, level loops 0..=31 via full pyramids; 2 faults after open - fault_case (undecodable payload / mislabelled compression + transcode: fail loudly or deliver everything); 3 payload classes - reuse_and_payload_cases (1 byte, duplicates below/above the 1000-byte de-dup threshold, 40 KB, unique; empty payloads: known finding of C04); 4 option interplay - binary_cases: min/max zoom x bbox x border x flip x swap x compress x force-recompress x override-input-compression x source format x target format through the real CLI vs the library call with the same parameters, malformed --bbox strings; library scenarios add force-recompress; 5 reuse - conversion onto an existing output of every target, container onto itself, every reader built fresh and re-opened; 6 scheduling - n.a. here (streams compared as sets; C14 owns the operators); 7 HTTP - serve-vs-convert uses plain GETs on every tile source (header variants are C05); 8 extreme coordinates - edge_sweep (zoom 0/1/2/30/31 x geo boxes exactly at +-180/+-85.0511 x clamped borders; corner tiles with requested boxes touching 0 and 2^z-1), empty boxes in all encodings; 9 independent encoders - PMTiles runs / padded versatiles blocks as conversion sources; 10 two paths - lookup vs stream vs advertised coverage (unrestricted and restricted), advertised pyramid vs delivered tiles vs coverage written to the output header, binary vs library, serve vs convert".into());
	let rt = tokio::runtime::Builder::new_multi_thread().worker_threads(4).enable_all().build().unwrap();
	let dir = args.out.join("c06files");
	std::fs::create_dir_all(&dir).unwrap();
	let mut ctx = Ctx { rt, dir, n_files: 0 };
	if let Some(p) = &args.replay {
		for line in std::fs::read_to_string(p).unwrap().lines() {
			replay_line(&mut out, &mut ctx, line);
		}
		out.finish();
		return;
	}
	let mut rng = Rng::new(args.seed);
	// fixed boundary scenarios: the F1 witness and single tiles at the extreme levels
	for (i, tiles) in [vec![(1u32, 2u32, 3u8)], vec![(0, 0, 0)], vec![(0, 0, 31), (1, 0, 31)], vec![(2147483646, 2147483647, 31), (2147483647, 2147483647, 31)], vec![(0, 1, 1), (1, 0, 1)]].into_iter().enumerate() {
		for fl in 0..4 {
			let mut cover = TileBBoxPyramid::new_empty();
			for c in &tiles {
				cover.include_coord(&TileCoord3::new(c.0, c.1, c.2).unwrap());
			}
			let sc = Scen { tiles: tiles.clone(), cover, f: fl & 1 == 1, s: fl & 2 == 2, req: None, src_comp: COMPS[i % 3], dst_comp: None, format: TileFormat::JSON, force: false };
			scenario(&mut out, &mut ctx, &mut rng, &sc, None, Some(TARGETS[(i + fl) % 5]));
		}
	}
	let n = args.n(260, 4000);
	for i in 0..n {
		let (sc, opts) = gen_scen(&mut rng, i);
		let target = if i % 3 == 0 { Some(TARGETS[(i / 3) % 5]) } else { None };
		scenario(&mut out, &mut ctx, &mut rng, &sc, opts.as_ref(), target);
	}
	// option handling alone (many more boxes than scenarios)
	for _ in 0..args.n(600, 10000) {
		let tiles = gen_tiles(&mut rng);
		let o = gen_opts(&mut rng, &tiles);
		do_pyr(&mut out, &o);
	}
	for i in 0..args.n(120, 1500) {
		fault_case(&mut out, &mut ctx, &mut rng, i);
	}
	edge_sweep(&mut out, &mut ctx, &mut rng, args.thorough());
	reuse_and_payload_cases(&mut out, &mut ctx, &mut rng, args.n(25, 300));
	cli_boundary_cases(&mut out, &mut ctx, &mut rng, args.thorough());
	file_source_cases(&mut out, &mut ctx, &mut rng, args.n(40, 500));
	binary_cases(&mut out, &mut ctx, &mut rng, args.n(40, 400));
	if args.thorough() {
		serve_cases(&mut out, &mut ctx, &mut rng, 40);
	} else {
		serve_cases(&mut out, &mut ctx, &mut rng, 4);
	}
	let _ = std::fs::remove_dir_all(&ctx.dir);
	out.finish();
}
